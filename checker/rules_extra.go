package main

// Rules added after the first round of independently seeded changes (see DESIGN.md "seeded changes"): each is a
// structural necessary condition of its property that the first rule set did not state.

import (
	"fmt"
	"go/ast"
	"go/token"
	"go/types"
	"regexp"
	"sort"
	"strings"

	"golang.org/x/tools/go/packages"

	"golang.org/x/tools/go/cfg"
)

func extend(id string, rules ...func(*Ctx)) {
	p := properties[id]
	if p == nil {
		panic("extend: unknown property " + id)
	}
	p.Rules = append(p.Rules, rules...)
}

func init() {
	extend("C03", ruleC03GuardAgreement, ruleRecordKeysExplicit("C03.record-keys-explicit"))
	extend("C02", ruleRecordKeysExplicit("C02.record-keys-explicit"), ruleRenameMoves("C02.rename-moves"))
	extend("C12", ruleRenameMoves("C12.rename-moves"))
	extend("C14", ruleWriteCursorAfterLoad("C14.write-cursor-after-load"), ruleCachedSizeReadModeOnly("C14.cached-size-read-mode-only"))
	extend("C04", ruleIndexReadsUnderLock("C04.index-reads-under-lock"), ruleMoveOneRow("C04.move-one-row"))
	extend("C07", ruleMoveOneRow("C07.move-one-row"), ruleRowLevelWrites("C07.row-level-writes"))
	extend("C12", ruleRowLevelWrites("C12.row-level-writes"))
	extend("C18", rulePasswordVerbatim("C18.password-verbatim"), ruleStreamWrapperContract("C18.stream-wrapper-contract"), ruleNoBoundedCopy("C18.no-bounded-copy"))
	extend("C08", ruleStreamWrapperContract("C08.stream-wrapper-contract"))
	extend("C09", ruleNoBoundedCopy("C09.no-bounded-copy"))
	extend("C03", ruleStreamWrapperContract("C03.stream-wrapper-contract"), ruleNoBoundedCopy("C03.no-bounded-copy"))
	extend("C07", ruleCreateResetsAllColumns("C07.create-resets-all-columns"))
	extend("C13", ruleCreateResetsAllColumns("C13.create-resets-all-columns"))
	extend("C05", ruleSentinelProduced("C05.sentinel-produced"), rulePaddingIsFreshZeros("C05.padding-fresh-zeros"))
	extend("C09", rulePaddingIsFreshZeros("C09.padding-fresh-zeros"), ruleRestoreOnlyThroughFetch("C09.restore-only-through-fetch"))
	extend("C08", ruleRestoreOnlyThroughFetch("C08.restore-only-through-fetch"))
	extend("C10", ruleSentinelProduced("C10.sentinel-produced"))
	extend("C11", ruleIndexReadsUnderLock("C11.index-reads-under-lock"))
	extend("C03", ruleWriteCursorAfterLoad("C03.write-cursor-after-load"))
	extend("C08", ruleErrorPropagated("C08.verify-error-propagated", true), ruleC08ContentVerifyThreading)
	extend("C09", ruleErrorPropagated("C09.decrypt-error-propagated", false))
	extend("C12", ruleC12PrefixRewrite, ruleC12SupersetSelect)
	extend("C13", ruleC12SupersetSelectAs("C13.descendant-select"))
	extend("C14", ruleC14FreshSizeOnWriteEntry)
	extend("C04", ruleC04PositionFromDrive, ruleC04OverwriteStartsAtZero)
	extend("C07", ruleC07MutatorAlwaysWrites, ruleRootPreload("C07.root-preload"))
	extend("C17", ruleRootPreload("C17.root-preload"), ruleRootCacheWriters("C17.root-cache-writers"))
	extend("C11", ruleRootCacheWriters("C11.root-cache-writers"))
	extend("C16", ruleCacheLayerStartsEmpty("C16.cache-layer-starts-empty"))
	extend("C11", ruleC11AtomicCheckThenAct, ruleC11ExclusiveMode)
}

// ---- boolean normalisation (truth tables over leaf conditions) ----

type boolExpr func(val map[string]bool) bool

// compileBool turns a Go boolean expression into an evaluator over named atoms. `x <= 0` is the negation of the
// atom `x > 0` (and `x < 1`, `x == 0` for non-negative sizes are not assumed).
func compileBool(e ast.Expr, atoms map[string]bool) boolExpr {
	e = ast.Unparen(e)
	switch x := e.(type) {
	case *ast.UnaryExpr:
		if x.Op == token.NOT {
			in := compileBool(x.X, atoms)
			return func(v map[string]bool) bool { return !in(v) }
		}
	case *ast.BinaryExpr:
		switch x.Op {
		case token.LAND:
			a, b := compileBool(x.X, atoms), compileBool(x.Y, atoms)
			return func(v map[string]bool) bool { return a(v) && b(v) }
		case token.LOR:
			a, b := compileBool(x.X, atoms), compileBool(x.Y, atoms)
			return func(v map[string]bool) bool { return a(v) || b(v) }
		case token.LEQ:
			if lit, ok := ast.Unparen(x.Y).(*ast.BasicLit); ok && lit.Value == "0" {
				name := types.ExprString(x.X) + " > 0"
				atoms[name] = true
				return func(v map[string]bool) bool { return !v[name] }
			}
		case token.GTR:
			if lit, ok := ast.Unparen(x.Y).(*ast.BasicLit); ok && lit.Value == "0" {
				name := types.ExprString(x.X) + " > 0"
				atoms[name] = true
				return func(v map[string]bool) bool { return v[name] }
			}
		}
	}
	name := types.ExprString(e)
	atoms[name] = true
	return func(v map[string]bool) bool { return v[name] }
}

type condLit struct {
	e   ast.Expr
	pos bool
}

// enclosingConds lists the if-conditions (with polarity) under which node executes inside body.
func enclosingConds(body ast.Node, target ast.Node) []condLit {
	var out []condLit
	var walk func(n ast.Node) bool
	walk = func(n ast.Node) bool {
		if n == nil {
			return false
		}
		if n == target {
			return true
		}
		if target.Pos() < n.Pos() || target.End() > n.End() {
			return false
		}
		if is, ok := n.(*ast.IfStmt); ok {
			if is.Init != nil && walk(is.Init) {
				return true
			}
			if containsNode(is.Cond, target) {
				return true
			}
			if walk(is.Body) {
				out = append(out, condLit{is.Cond, true})
				return true
			}
			if is.Else != nil && walk(is.Else) {
				out = append(out, condLit{is.Cond, false})
				return true
			}
			return false
		}
		found := false
		ast.Inspect(n, func(m ast.Node) bool {
			if found || m == nil {
				return false
			}
			if m == n {
				return true
			}
			if _, ok := m.(*ast.FuncLit); ok {
				return false
			}
			if walk(m) {
				found = true
			}
			return false
		})
		return found
	}
	walk(body)
	return out
}

// enclosingCondsFlow is enclosingConds plus the conditions that hold implicitly because an earlier sibling statement
// `if C { ...; return/goto/continue/break }` (without else) has left: for the statements behind it !C holds - the
// early-return spelling of if/else. Error tests (`err != nil`) are not reported. Innermost first.
func enclosingCondsFlow(info *types.Info, body ast.Node, target ast.Node) []condLit {
	var implicit []condLit
	terminates := func(b *ast.BlockStmt) bool {
		if b == nil || len(b.List) == 0 {
			return false
		}
		switch x := b.List[len(b.List)-1].(type) {
		case *ast.ReturnStmt:
			return true
		case *ast.BranchStmt:
			return x.Tok == token.GOTO || x.Tok == token.CONTINUE || x.Tok == token.BREAK
		case *ast.ExprStmt:
			if call, ok := x.X.(*ast.CallExpr); ok {
				if id, ok := call.Fun.(*ast.Ident); ok && id.Name == "panic" {
					return true
				}
			}
		}
		return false
	}
	isErrTest := func(e ast.Expr) bool {
		be, ok := ast.Unparen(e).(*ast.BinaryExpr)
		if !ok || (be.Op != token.NEQ && be.Op != token.EQL) {
			return false
		}
		var x ast.Expr
		if isNilIdent(info, be.Y) {
			x = be.X
		} else if isNilIdent(info, be.X) {
			x = be.Y
		}
		if x == nil {
			return false
		}
		tv, ok := info.Types[x]
		return ok && tv.Type != nil && tv.Type.String() == "error"
	}
	scan := func(list []ast.Stmt) {
		for j, st := range list {
			if target.Pos() >= st.Pos() && target.End() <= st.End() {
				for i := j - 1; i >= 0; i-- {
					if is, ok := list[i].(*ast.IfStmt); ok && is.Else == nil && terminates(is.Body) && !isErrTest(is.Cond) {
						implicit = append(implicit, condLit{is.Cond, false})
					}
				}
			}
		}
	}
	// innermost list first: collect lists on the path to the target, from the outside in, then reverse
	var lists [][]ast.Stmt
	ast.Inspect(body, func(n ast.Node) bool {
		if n == nil {
			return false
		}
		if _, ok := n.(*ast.FuncLit); ok && !(target.Pos() >= n.Pos() && target.End() <= n.End()) {
			return false
		}
		if target.Pos() < n.Pos() || target.End() > n.End() {
			return false
		}
		switch x := n.(type) {
		case *ast.BlockStmt:
			lists = append(lists, x.List)
		case *ast.CaseClause:
			lists = append(lists, x.Body)
		case *ast.CommClause:
			lists = append(lists, x.Body)
		}
		return true
	})
	if len(lists) > 0 {
		// only the innermost list contributes "inner" implicit conditions; outer ones are appended after the explicit ones
		scan(lists[len(lists)-1])
	}
	// a tagless switch is an if/else-if chain: inside case k, its own condition holds and those of the earlier cases don't
	var caseConds []condLit
	ast.Inspect(body, func(n ast.Node) bool {
		if n == nil {
			return false
		}
		if target.Pos() < n.Pos() || target.End() > n.End() {
			return false
		}
		if sw, ok := n.(*ast.SwitchStmt); ok && sw.Tag == nil {
			for k, cc := range sw.Body.List {
				cl := cc.(*ast.CaseClause)
				inBody := false
				for _, st := range cl.Body {
					if target.Pos() >= st.Pos() && target.End() <= st.End() {
						inBody = true
					}
				}
				if !inBody {
					continue
				}
				if len(cl.List) == 1 {
					caseConds = append(caseConds, condLit{cl.List[0], true})
				}
				for _, prev := range sw.Body.List[:k] {
					for _, e := range prev.(*ast.CaseClause).List {
						caseConds = append(caseConds, condLit{e, false})
					}
				}
			}
		}
		return true
	})
	out := append([]condLit{}, implicit...)
	out = append(out, caseConds...)
	out = append(out, enclosingConds(body, target)...)
	for i := len(lists) - 2; i >= 0; i-- {
		n0 := len(implicit)
		scan(lists[i])
		out = append(out, implicit[n0:]...)
	}
	return out
}

func ruleC03GuardAgreement(c *Ctx) {
	const rule = "C03.two-pass-guard-agreement"
	c.floor(rule, 2, "writing functions with a size pass and a write pass")
	p := c.pipeFns()
	if p.compress == nil {
		return
	}
	for _, f := range contentWriters(c, p) {
		info := f.Pkg.TypesInfo
		var comps []*CallSite
		var whs []*CallSite
		for _, cs := range f.calls {
			if cs.Target == p.compress {
				comps = append(comps, cs)
			}
			if isMethod(cs.Callee, "archive/tar", "Writer", "WriteHeader") {
				whs = append(whs, cs)
			}
		}
		if len(comps) != 2 || len(whs) == 0 {
			c.undecided(rule, f, "guards", f.Decl.Pos(), "expected two Compress calls and a WriteHeader")
			continue
		}
		// the header write belonging to the write pass: the last WriteHeader before the second Compress
		var wh *CallSite
		for _, w := range whs {
			if w.Call.Pos() < comps[1].Call.Pos() {
				wh = w
			}
		}
		if wh == nil {
			c.undecided(rule, f, "guards", f.Decl.Pos(), "no WriteHeader precedes the write pass")
			continue
		}
		sizeConds := enclosingConds(f.Body(), comps[0].Call)
		writeConds := enclosingConds(f.Body(), comps[1].Call)
		// skip statements between the header write and the write pass: `if C { ...; continue }` at the write pass's nesting
		var skips []ast.Expr
		walkOwn(f.Body(), func(n ast.Node) {
			is, ok := n.(*ast.IfStmt)
			if !ok || is.Pos() < wh.Call.End() || is.End() > comps[1].Call.Pos() || len(is.Body.List) == 0 {
				return
			}
			br, ok := is.Body.List[len(is.Body.List)-1].(*ast.BranchStmt)
			if !ok || br.Tok != token.CONTINUE {
				return
			}
			if len(enclosingConds(f.Body(), is)) == len(writeConds) {
				skips = append(skips, is.Cond)
			}
		})
		atoms := map[string]bool{}
		conj := func(cs []condLit) boolExpr {
			var fs []boolExpr
			var pols []bool
			for _, cl := range cs {
				fs = append(fs, compileBool(cl.e, atoms))
				pols = append(pols, cl.pos)
			}
			return func(v map[string]bool) bool {
				for i, g := range fs {
					if g(v) != pols[i] {
						return false
					}
				}
				return true
			}
		}
		sizePass := conj(sizeConds)
		ctx := conj(writeConds)
		var skipFs []boolExpr
		for _, s := range skips {
			skipFs = append(skipFs, compileBool(s, atoms))
		}
		writePass := func(v map[string]bool) bool {
			if !ctx(v) {
				return false
			}
			for _, s := range skipFs {
				if s(v) {
					return false
				}
			}
			return true
		}
		var names []string
		for a := range atoms {
			names = append(names, a)
		}
		sort.Strings(names)
		if len(names) > 10 {
			c.undecided(rule, f, "guards", f.Decl.Pos(), "too many distinct conditions (%d) to enumerate", len(names))
			continue
		}
		counter := ""
		for m := 0; m < 1<<len(names); m++ {
			v := map[string]bool{}
			for i, a := range names {
				v[a] = m&(1<<i) != 0
			}
			if ctx(v) && sizePass(v) != writePass(v) {
				var parts []string
				for _, a := range names {
					parts = append(parts, fmt.Sprintf("%s=%v", a, v[a]))
				}
				counter = strings.Join(parts, ", ")
				break
			}
		}
		_ = info
		c.verdictIf(counter == "", rule, f, "size pass iff write pass", comps[1].Call.Pos(),
			fmt.Sprintf("over all %d valuations of %v the size pass runs exactly when the write pass does", 1<<len(names), names),
			"the size pass and the write pass run under different conditions (e.g. "+counter+"): the header then announces a size that is never written (or content is written that the header does not announce), corrupting the tar stream for exactly those inputs")
	}
}

// ---- error propagation of the decrypt/verify callbacks ----

func ruleErrorPropagated(rule string, verify bool) func(*Ctx) {
	return func(c *Ctx) {
		c.floor(rule, 5, "decrypt/verify calls in recovery.Index, Fetch, Query")
		sigVH := c.fn("pkg/signature", "VerifyHeader")
		sigV := c.fn("pkg/signature", "Verify")
		decH := c.fn("pkg/encryption", "DecryptHeader")
		dec := c.fn("pkg/encryption", "Decrypt")
		n := 0
		for _, name := range []string{"Index", "Fetch", "Query"} {
			f := c.fn("pkg/recovery", name)
			if f == nil {
				continue
			}
			info := f.Pkg.TypesInfo
			vparam, dparam := paramVar(f, "verifyHeader"), paramVar(f, "decryptHeader")
			// the content verifier's check function in Fetch
			var verifyFn types.Object
			walkOwn(f.Body(), func(nd ast.Node) {
				as, ok := nd.(*ast.AssignStmt)
				if ok && len(as.Rhs) == 1 && len(as.Lhs) >= 2 && sigV != nil {
					if call, ok := ast.Unparen(as.Rhs[0]).(*ast.CallExpr); ok && isCallTo(info, call, sigV.Obj) {
						verifyFn = objOfIdent(info, as.Lhs[1])
					}
				}
			})
			k := 0
			for _, cs := range f.calls {
				o := cs.Callee
				var what string
				if verify {
					switch {
					case vparam != nil && o == types.Object(vparam):
						what = "verifyHeader callback"
					case sigVH != nil && o == types.Object(sigVH.Obj):
						what = "signature.VerifyHeader"
					case sigV != nil && o == types.Object(sigV.Obj):
						what = "signature.Verify"
					case verifyFn != nil && o == verifyFn:
						what = "content verify()"
					}
				} else {
					switch {
					case dparam != nil && o == types.Object(dparam):
						what = "decryptHeader callback"
					case decH != nil && o == types.Object(decH.Obj):
						what = "encryption.DecryptHeader"
					case dec != nil && o == types.Object(dec.Obj):
						what = "encryption.Decrypt"
					}
				}
				if what == "" {
					continue
				}
				n++
				k++
				good := errorReturned(f, cs.Call)
				c.verdictIf(good, rule, f, fmt.Sprintf("%s#%d", what, k), cs.Call.Pos(),
					"a failure of "+what+" ends the operation with that error", "a failure of "+what+" is not returned to the caller (skipped/ignored): records that cannot be decrypted or verified are silently passed over, so a rebuild or restore 'succeeds' with the wrong key or on a forged tape")
			}
		}
		if n < half(5) {
			c.unresolved("only %d decrypt/verify calls found in pkg/recovery", n)
		}
	}
}

// errorReturned: the call's error is tested immediately and the failing branch ends in a return of a non-nil error.
func errorReturned(f *FuncInfo, call *ast.CallExpr) bool {
	info := f.Pkg.TypesInfo
	ok := false
	var visit func(list []ast.Stmt)
	checkIf := func(is *ast.IfStmt, errObj types.Object) bool {
		be, isBin := ast.Unparen(is.Cond).(*ast.BinaryExpr)
		if !isBin || be.Op != token.NEQ || !isNilIdent(info, be.Y) || objOfIdent(info, be.X) != errObj {
			return false
		}
		return branchReturnsError(info, is.Body)
	}
	visit = func(list []ast.Stmt) {
		for i, st := range list {
			switch s := st.(type) {
			case *ast.IfStmt:
				if as, isAs := s.Init.(*ast.AssignStmt); isAs && len(as.Rhs) == 1 && ast.Unparen(as.Rhs[0]) == ast.Expr(call) {
					if checkIf(s, objOfIdent(info, as.Lhs[len(as.Lhs)-1])) {
						ok = true
					}
					return
				}
			case *ast.AssignStmt:
				if len(s.Rhs) == 1 && ast.Unparen(s.Rhs[0]) == ast.Expr(call) && i+1 < len(list) {
					if is, isIf := list[i+1].(*ast.IfStmt); isIf && is.Init == nil && checkIf(is, objOfIdent(info, s.Lhs[len(s.Lhs)-1])) {
						ok = true
					}
					return
				}
			case *ast.ReturnStmt:
				for _, r := range s.Results {
					if ast.Unparen(r) == ast.Expr(call) {
						ok = true // returned directly
					}
				}
			}
		}
	}
	ast.Inspect(f.Body(), func(n ast.Node) bool {
		switch b := n.(type) {
		case *ast.BlockStmt:
			visit(b.List)
		case *ast.CaseClause:
			visit(b.Body)
		}
		return true
	})
	return ok
}

func ruleC08ContentVerifyThreading(c *Ctx) {
	const rule = "C08.content-verify-threading"
	c.floor(rule, 1, "the signature.Verify call in recovery.Fetch")
	f := c.fn("pkg/recovery", "Fetch")
	sigV := c.fn("pkg/signature", "Verify")
	if f == nil || sigV == nil {
		return
	}
	info := f.Pkg.TypesInfo
	n := 0
	for _, cs := range f.calls {
		if cs.Target != sigV || len(cs.Call.Args) != 5 {
			continue
		}
		n++
		good := argField(info, cs.Call.Args[2]) == "Signature" && argField(info, cs.Call.Args[3]) == "Recipient"
		c.verdictIf(good, rule, f, fmt.Sprintf("Verify#%d", n), cs.Call.Pos(), "content is verified under the configured signature format with the configured recipient",
			"the content verifier is not built from (pipes.Signature, crypto.Recipient) - e.g. a locally overridden format: content checking can be switched off by data the attacker controls")
	}
	if n == 0 {
		c.bad(rule, f, "Verify#1", f.Decl.Pos(), "Fetch no longer verifies content through signature.Verify")
	}
}

// ---- C12: prefix rewrite in Move, superset selection of descendants, ancestry test on cleaned names ----

func ruleC12PrefixRewrite(c *Ctx) {
	const rule = "C12.prefix-rewrite"
	c.floor(rule, 2, "the new-name computation in Operations.Move and the cleaned-name precondition of Rename's ancestry test")
	f := c.fn("pkg/operations", "(*Operations).Move")
	if f == nil {
		return
	}
	info := f.Pkg.TypesInfo
	from, to := paramVar(f, "from"), paramVar(f, "to")
	var store *ast.AssignStmt
	walkOwn(f.Body(), func(n ast.Node) {
		as, ok := n.(*ast.AssignStmt)
		if !ok || len(as.Lhs) != 1 || len(as.Rhs) != 1 {
			return
		}
		if se, ok := ast.Unparen(as.Lhs[0]).(*ast.SelectorExpr); ok && se.Sel.Name == "Name" && isTarHeaderExpr(info, se.X) {
			store = as
		}
	})
	if store == nil || from == nil || to == nil {
		c.unresolved("new-name assignment in Operations.Move")
	} else {
		allowed := map[string]bool{"path.Join": true, "path/filepath.Join": true, "strings.TrimPrefix": true, "strings.CutPrefix": true}
		var foreign []string
		usesOld := false
		inspectThrough(f, store.Rhs[0], func(n ast.Node) bool {
			if call, ok := n.(*ast.CallExpr); ok {
				if fn, ok := calleeObj(info, call).(*types.Func); ok && fn.Pkg() != nil {
					full := fn.Pkg().Path() + "." + fn.Name()
					if !allowed[full] {
						foreign = append(foreign, full)
					}
				}
			}
			if se, ok := n.(*ast.SelectorExpr); ok && se.Sel.Name == "Name" {
				usesOld = true
			}
			return true
		})
		good := len(foreign) == 0 && usesOld && usesObjThrough(f, store.Rhs[0], from) && usesObjThrough(f, store.Rhs[0], to)
		c.verdictIf(good, rule, f, "new name", store.Pos(), "new name = Join(to, old name with the source prefix trimmed): only the leading occurrence of the source path is replaced",
			"the new name of a moved entry is not computed by trimming the source *prefix* and joining the destination (calls: "+strings.Join(foreign, ", ")+"): other occurrences of the source path inside descendant names get rewritten or lost")
	}
	// Rename: the ancestry test runs on cleaned names
	rn := c.fn("pkg/fs", "(*STFS).Rename")
	if rn == nil {
		return
	}
	rinfo := rn.Pkg.TypesInfo
	oldV, newV := paramVar(rn, "oldname"), paramVar(rn, "newname")
	var test *ast.IfStmt
	walkOwn(rn.Body(), func(n ast.Node) {
		is, ok := n.(*ast.IfStmt)
		if !ok {
			return
		}
		if call, ok := ast.Unparen(is.Cond).(*ast.CallExpr); ok && isPkgFunc(calleeObj(rinfo, call), "strings", "HasPrefix") && usesObj(rinfo, call, oldV) && usesObj(rinfo, call, newV) {
			test = is
		}
	})
	if test == nil {
		return // reported by C12.ancestry-guard
	}
	fl := c.flow(rn)
	okBoth := true
	for _, v := range []*types.Var{oldV, newV} {
		vv := v
		okk, _ := fl.dominatedBy(test.Cond, func(n ast.Node) bool {
			as, ok := n.(*ast.AssignStmt)
			if !ok || len(as.Lhs) != 1 || len(as.Rhs) != 1 || objOfIdent(rinfo, as.Lhs[0]) != types.Object(vv) {
				return false
			}
			call, ok := ast.Unparen(as.Rhs[0]).(*ast.CallExpr)
			if !ok || len(call.Args) != 1 || objOfIdent(rinfo, call.Args[0]) != types.Object(vv) {
				return false
			}
			fn, ok := calleeObj(rinfo, call).(*types.Func)
			return ok && (fn.Name() == "cleanName" || fn.Name() == "Clean")
		}, nil)
		if !okk {
			okBoth = false
		}
	}
	c.verdictIf(okBoth, rule, rn, "ancestry test on cleaned names", test.Pos(), "both names are cleaned before the subtree test", "the subtree test runs on names that have not been cleaned: spellings such as //a/x or /a/./x of a path inside the source slip past it")
}

func ruleC12SupersetSelect(c *Ctx) { ruleC12SupersetSelectAs("C12.superset-select")(c) }

// ruleC12SupersetSelectAs: the SQL predicate that pre-selects descendants must be a known superset of "name has the
// literal prefix" (the Go-side HasPrefix check then makes it exact). Table of recognised supersets: `like ?`.
func ruleC12SupersetSelectAs(rule string) func(*Ctx) {
	return func(c *Ctx) {
		c.floor(rule, 1, "the descendant query of GetHeaderChildren")
		f := c.fn("pkg/persisters", "(*MetadataPersister).GetHeaderChildren")
		if f == nil {
			return
		}
		info := f.Pkg.TypesInfo
		n := 0
		for _, cs := range f.calls {
			fn, ok := cs.Callee.(*types.Func)
			if !ok || fn.Pkg() == nil || fn.Name() != "Where" || !strings.HasSuffix(fn.Pkg().Path(), "queries/qm") || len(cs.Call.Args) < 2 {
				continue
			}
			// predicates on the name column with a bound argument
			onName := false
			ast.Inspect(cs.Call.Args[0], func(m ast.Node) bool {
				if se, ok := m.(*ast.SelectorExpr); ok && se.Sel.Name == "Name" {
					onName = true
				}
				return true
			})
			if !onName {
				continue
			}
			n++
			text := sqlTextOf(f, cs.Call.Args[0], 0)
			if likeRe.MatchString(text) {
				c.ok(rule, f, fmt.Sprintf("name predicate#%d", n), cs.Call.Pos(), true, "descendants pre-selected with LIKE prefix%% (a superset of the literal-prefix set; the Go-side check makes it exact)")
			} else {
				c.undecided(rule, f, fmt.Sprintf("name predicate#%d", n), cs.Call.Pos(), "descendants are pre-selected with the SQL predicate %q, which is not in the table of predicates known to select a superset of the names with the literal prefix (GLOB has character classes, range scans depend on collation/byte order): entries inside the subtree can be missed", strings.TrimSpace(text))
			}
		}
		_ = info
		if n == 0 {
			c.ok(rule, f, "name predicate#0", f.Decl.Pos(), false, "no SQL pre-selection on the name column (everything is filtered in Go)")
		}
	}
}

// ---- C14: write entry decides from a fresh index lookup ----

func ruleC14FreshSizeOnWriteEntry(c *Ctx) {
	const rule = "C14.fresh-size-on-write-entry"
	c.floor(rule, 1, "the load-existing-content decision in enterWriteMode")
	f := c.fn("pkg/fs", "(*File).enterWriteMode")
	stat := c.fn("pkg/inventory", "Stat")
	pathField := c.field("pkg/fs", "File", "path")
	if f == nil || stat == nil || pathField == nil {
		return
	}
	info := f.Pkg.TypesInfo
	fl := c.flow(f)
	n := 0
	for _, cs := range f.calls {
		if cs.Target == nil || cs.Target.Name != "(*Operations).Restore" {
			continue
		}
		n++
		okk, _ := fl.dominatedBy(cs.Call, func(m ast.Node) bool {
			for _, call := range callsIn(m) {
				if calleeObj(info, call) == types.Object(stat.Obj) && len(call.Args) >= 2 && selField(info, call.Args[1]) == pathField {
					return true
				}
			}
			return false
		}, nil)
		c.verdictIf(okk, rule, f, fmt.Sprintf("Restore#%d", n), cs.Call.Pos(), "whether existing content is loaded is decided from a fresh index lookup of the file",
			"the first write on a handle decides whether to load the existing content without a fresh index lookup (e.g. from the size cached when the handle was opened): content written through another handle in the meantime is silently discarded")
	}
	if n == 0 {
		c.bad(rule, f, "Restore#1", f.Decl.Pos(), "enterWriteMode no longer loads existing content")
	}
}

// ---- C04 additions ----

func ruleC04PositionFromDrive(c *Ctx) {
	const rule = "C04.position-from-drive"
	c.floor(rule, 4, "block-count computations after each member in Index and Query")
	for _, name := range []string{"Index", "Query"} {
		f := c.fn("pkg/recovery", name)
		if f == nil {
			continue
		}
		info := f.Pkg.TypesInfo
		n := 0
		walkOwn(f.Body(), func(nd ast.Node) {
			as, ok := nd.(*ast.AssignStmt)
			if !ok || len(as.Rhs) != 1 {
				return
			}
			call, ok := ast.Unparen(as.Rhs[0]).(*ast.CallExpr)
			if !ok || !isPkgFunc(calleeObj(info, call), "math", "Ceil") {
				return
			}
			n++
			// every variable feeding the block count must come from the reader position (Seek(0, SeekCurrent) or a byte counter)
			var bad []string
			ast.Inspect(call.Args[0], func(m ast.Node) bool {
				switch x := m.(type) {
				case *ast.SelectorExpr:
					if isTarHeaderExpr(info, x.X) {
						bad = append(bad, types.ExprString(x))
					}
					return false
				case *ast.Ident:
					v, ok := info.Uses[x].(*types.Var)
					if !ok || v.IsField() {
						return true
					}
					if k := constOf(info, x); k != nil {
						return true
					}
					okSrc := true
					found := false
					ast.Inspect(f.Body(), func(d ast.Node) bool {
						das, ok := d.(*ast.AssignStmt)
						if !ok {
							return true
						}
						for i, l := range das.Lhs {
							if objOfIdent(info, l) != types.Object(v) {
								continue
							}
							found = true
							var r ast.Expr
							if len(das.Rhs) == len(das.Lhs) {
								r = das.Rhs[i]
							} else {
								r = das.Rhs[0]
							}
							r = stripConv(info, r)
							good := false
							if dc, ok := r.(*ast.CallExpr); ok {
								if se, ok := ast.Unparen(dc.Fun).(*ast.SelectorExpr); ok && se.Sel.Name == "Seek" && len(dc.Args) == 2 {
									tv := info.Types[dc.Args[0]]
									if tv.Value != nil && tv.Value.String() == "0" {
										good = true
									}
								}
							}
							if se, ok := r.(*ast.SelectorExpr); ok && se.Sel.Name == "BytesRead" {
								good = true
							}
							if be, ok := r.(*ast.BinaryExpr); ok && !strings.Contains(types.ExprString(be), ".Size") {
								good = true // arithmetic over other position variables, checked recursively by name below
							}
							if !good {
								okSrc = false
							}
						}
						return true
					})
					if found && !okSrc {
						bad = append(bad, x.Name)
					}
				}
				return true
			})
			c.verdictIf(len(bad) == 0, rule, f, fmt.Sprintf("block count#%d", n), as.Pos(), "the next position is computed from the reader's own offset after the member was skipped",
				"the next record position is computed from "+strings.Join(bad, ", ")+" rather than from the reader's offset after skipping the member: header sizes are the logical (uncompressed, substituted) ones, so positions drift under compression/encryption or batched members")
		})
		if n == 0 {
			c.ok(rule, f, "no math.Ceil form", f.Decl.Pos(), false, "block counts are not computed through math.Ceil here (integer forms are judged by C04.block-count-rounds-up)")
		}
	}
}

func ruleC04OverwriteStartsAtZero(c *Ctx) {
	const rule = "C04.overwrite-starts-at-zero"
	c.floor(rule, 1, "recovery.Index call sites whose overwrite argument is not the constant false")
	index := c.fn("pkg/recovery", "Index")
	if index == nil {
		return
	}
	sig := index.Obj.Type().(*types.Signature)
	n := 0
	for _, f := range c.Funcs {
		if strings.HasPrefix(f.RelPkg(), "cmd") {
			continue // flags are the user's responsibility
		}
		info := f.Pkg.TypesInfo
		for _, cs := range f.calls {
			if cs.Target != index {
				continue
			}
			ow, okRole := roleArg(f, cs.Call, sig, "overwrite")
			if !okRole {
				c.unresolved("cannot tell what %s passes to recovery.Index as overwrite", c.pos(cs.Call.Pos()))
				continue
			}
			if ow == nil {
				continue // left at its zero value: not overwriting
			}
			if tv := info.Types[ow]; tv.Value != nil && tv.Value.String() == "false" {
				continue
			}
			n++
			owObj := objOfIdent(info, ow)
			fl := c.flow(f)
			good := true
			why := ""
			for _, an := range []string{"record", "block"} {
				ra, okRole := roleArg(f, cs.Call, sig, an)
				if !okRole {
					good, why = false, "cannot tell what is passed as "+an
					continue
				}
				if ra == nil {
					continue // zero value
				}
				arg := stripConv(info, ra)
				if tv := info.Types[arg]; tv.Value != nil {
					if tv.Value.String() != "0" {
						good, why = false, an+" is the non-zero constant "+tv.Value.String()
					}
					continue
				}
				v := objOfIdent(info, arg)
				if v == nil || owObj == nil {
					good, why = false, "cannot relate "+exprString(arg)+" to the overwrite flag"
					continue
				}
				walkOwn(f.Body(), func(nd ast.Node) {
					as, ok := nd.(*ast.AssignStmt)
					if !ok {
						return
					}
					for i, l := range as.Lhs {
						if objOfIdent(info, l) != v {
							continue
						}
						if len(as.Rhs) == len(as.Lhs) {
							if tv := info.Types[stripConv(info, as.Rhs[i])]; tv.Value != nil && tv.Value.String() == "0" {
								continue
							}
						}
						okk, reach := fl.guardedBy(as, func(ft Fact) bool { return objOfIdent(info, ft.E) == owObj && !ft.Pos }, nil)
						if reach && !okk {
							good, why = false, an+" can be set from the old index at "+c.pos(as.Pos())+" although overwrite may be true"
						}
					}
				})
			}
			c.verdictIf(good, rule, f, fmt.Sprintf("recovery.Index#%d", n), cs.Call.Pos(), "when overwriting, replay starts at (0,0); the last indexed position of the old index is consulted only when not overwriting",
				"an overwriting replay can start at a position taken from the index that is about to be purged ("+why+"): the new tape's records are indexed from the wrong offset")
		}
	}
	if n == 0 {
		c.unresolved("no recovery.Index call with a non-constant overwrite argument found in pkg/")
	}
}

// ---- C07 additions ----

func ruleC07MutatorAlwaysWrites(c *Ctx) {
	const rule = "C07.mutator-always-writes"
	c.floor(rule, 5, "success returns of the row-changing persister methods")
	s := c.sinks()
	var names []string
	for m := range s.mutators {
		names = append(names, m)
	}
	sort.Strings(names)
	for _, m := range names {
		f := c.fnOpt("pkg/persisters", "(*MetadataPersister)."+m)
		if f == nil {
			continue
		}
		info := f.Pkg.TypesInfo
		fl := c.flow(f)
		for i, ret := range returnsIn(f) {
			if !returnsNil(info, ret) {
				continue
			}
			okk, reach := c.successDominates(fl, ret, func(call *ast.CallExpr) bool { return isSQLWriteCall(calleeObj(info, call)) }, nil)
			if !reach {
				continue
			}
			c.verdictIf(okk, rule, f, fmt.Sprintf("return-nil#%d", i+1), ret.Pos(), "success is reported only after the row change was issued successfully",
				m+" can report success without having written anything (an early return before the SQL write): replaying a record into an index that already holds the row is then skipped instead of converging to the record's state")
		}
	}
}

func ruleRootPreload(rule string) func(*Ctx) {
	return func(c *Ctx) {
		c.floor(rule, 1, "MetadataPersister.Open")
		f := c.fn("pkg/persisters", "(*MetadataPersister).Open")
		getRoot := c.fn("pkg/persisters", "(*MetadataPersister).GetRootPath")
		if f == nil || getRoot == nil {
			return
		}
		info := f.Pkg.TypesInfo
		fl := c.flow(f)
		n := 0
		for i, ret := range returnsIn(f) {
			mayBeNil := returnsNil(info, ret)
			if len(ret.Results) == 1 {
				if _, isCall := ast.Unparen(ret.Results[0]).(*ast.CallExpr); isCall {
					mayBeNil = true // `return inner()` succeeds whenever inner does
				}
			}
			if !mayBeNil {
				continue
			}
			n++
			okk, _ := fl.dominatedBy(ret, func(m ast.Node) bool {
				for _, call := range callsIn(m) {
					if calleeObj(info, call) == types.Object(getRoot.Obj) {
						return true
					}
				}
				return false
			}, nil)
			c.verdictIf(okk, rule, f, fmt.Sprintf("return-nil#%d", i+1), ret.Pos(), "opening the index store loads the cached root before any name is normalised",
				"Open can succeed without loading the root of an existing index: the normaliser then infers a root from the first name it sees, so replaying into / looking up in a populated index stores and finds names under a different spelling")
		}
		if n == 0 {
			c.unresolved("no success return in MetadataPersister.Open")
		}
	}
}

// ---- C11 additions ----

func ruleC11AtomicCheckThenAct(c *Ctx) {
	const rule = "C11.atomic-check-then-act"
	c.floor(rule, 40, "index/drive-touching calls in the exported methods of STFS and File")
	ioS, ioF := c.mutex("fs.STFS"), c.mutex("fs.File")
	iface := c.namedType("pkg/config", "MetadataPersister")
	if ioS == nil || ioF == nil || iface == nil {
		return
	}
	// frozen exceptions: calls that legitimately run before the lock is taken (one line of reason each)
	exceptions := map[string]string{
		"(*STFS).Create|Stat":                                "pre-check only; OpenFile's create closure repeats the parent lookup under the lock",
		"(*STFS).Create|(*STFS).OpenFile":                    "OpenFile takes the lock itself",
		"(*STFS).Open|(*STFS).OpenFile":                      "OpenFile takes the lock itself",
		"(*STFS).SymlinkIfPossible|(*STFS).resolveCleanName": "reads the init-once root cache only",
		"(*File).ReadAt|(*File).Seek":                        "Seek takes the lock itself",
		"(*File).ReadAt|(*File).Read":                        "Read takes the lock itself",
		"(*File).Readdirnames|(*File).Readdir":               "Readdir takes the lock itself",
	}
	// touches(f): f (transitively, inside pkg/fs) calls into the index store, inventory or the operations
	touch := map[*FuncInfo]int{}
	var touches func(f *FuncInfo) bool
	direct := func(cs *CallSite) bool {
		if fn, ok := cs.Callee.(*types.Func); ok {
			sig := fn.Type().(*types.Signature)
			if sig.Recv() != nil && types.Identical(sig.Recv().Type(), iface) {
				return true
			}
		}
		if cs.Target != nil {
			switch cs.Target.RelPkg() {
			case "pkg/inventory", "pkg/operations", "pkg/recovery":
				return true
			}
		}
		return false
	}
	touches = func(f *FuncInfo) bool {
		switch touch[f] {
		case 1, 2:
			return false
		case 3:
			return true
		}
		touch[f] = 1
		res := false
		for _, cs := range f.calls {
			if direct(cs) || (cs.Target != nil && cs.Target.RelPkg() == "pkg/fs" && touches(cs.Target)) {
				res = true
				break
			}
		}
		if res {
			touch[f] = 3
		} else {
			touch[f] = 2
		}
		return res
	}
	// takesLock(f): f acquires ioLock itself
	takesLock := func(f *FuncInfo) bool {
		for _, cs := range f.calls {
			if mv, op := mutexField(f.Pkg.TypesInfo, cs.Call); (mv == ioS || mv == ioF) && op == "Lock" {
				return true
			}
		}
		return false
	}
	roots := append(exportedMethods(c, "pkg/fs", "STFS"), exportedMethods(c, "pkg/fs", "File")...)
	for _, m := range roots {
		info := m.Pkg.TypesInfo
		fl := c.flow(m)
		an := &Analysis{Must: true, Entry: 0, Node: func(n ast.Node, s State) State {
			if d, ok := n.(*ast.DeferStmt); ok {
				_ = d
				return s
			}
			for _, call := range callsIn(n) {
				if mv, op := mutexField(info, call); mv == ioS || mv == ioF {
					if op == "Lock" {
						s |= 1
					} else if op == "Unlock" {
						s &^= 1
					}
				}
			}
			return s
		}}
		fl.solve(an)
		k := 0
		for _, cs := range m.calls {
			if cs.Go {
				continue
			}
			isTouch := direct(cs) || (cs.Target != nil && cs.Target.RelPkg() == "pkg/fs" && touches(cs.Target))
			if !isTouch {
				continue
			}
			k++
			name := exprString(cs.Call.Fun)
			short := name
			if cs.Target != nil {
				short = cs.Target.Name
			}
			construct := fmt.Sprintf("call#%d %s", k, short)
			if why, ok := exceptions[m.Name+"|"+short]; ok {
				c.ok(rule, m, construct, cs.Call.Pos(), false, "exempt: %s", why)
				continue
			}
			s, reach := fl.before(an, cs.Call)
			if !reach {
				continue
			}
			held := s&1 != 0
			// a callee in pkg/fs that takes the lock itself must be called WITHOUT it (non-reentrant)
			if cs.Target != nil && cs.Target.RelPkg() == "pkg/fs" && takesLock(cs.Target) {
				c.verdictIf(!held, rule, m, construct, cs.Call.Pos(), "callee takes ioLock itself and is called without it", "a method that takes ioLock is called while ioLock is held: self-deadlock")
				continue
			}
			c.verdictIf(held, rule, m, construct, cs.Call.Pos(), "index/drive access inside the ioLock critical section",
				"the index or drive is accessed ("+name+") outside the ioLock critical section of "+m.Name+": a lookup and the action based on it are no longer atomic, so two concurrent callers can both pass the check (both succeed where any sequential order lets only one)")
		}
	}
}

func ruleC11ExclusiveMode(c *Ctx) {
	const rule = "C11.exclusive-mode"
	fields := []*types.Var{c.mutex("fs.STFS"), c.mutex("fs.File"), c.mutex("operations"),
		c.mutex("tape.reader"), c.mutex("tape.physical")}
	scan := func(cc *Ctx) int {
		n := 0
		for _, f := range cc.Funcs {
			for _, cs := range f.calls {
				mv, op := mutexField(f.Pkg.TypesInfo, cs.Call)
				if op != "RLock" && op != "RUnlock" && op != "TryLock" && op != "TryRLock" {
					continue
				}
				tracked := cc != c // in the fixture everything counts
				for _, fv := range fields {
					if fv != nil && mv == fv {
						tracked = true
					}
				}
				if tracked {
					n++
					if cc == c {
						c.bad(rule, f, fmt.Sprintf("%s.%s#%d", mv.Name(), op, n), cs.Call.Pos(), "%s is taken in shared/try mode: the operations it serialises (one drive, one reader handle, one index connection) are not safe to run side by side", mv.Name())
					}
				}
			}
		}
		return n
	}
	if scan(c) == 0 {
		fc, err := fixtureCtx("pkg/fixture", "package fixture\nimport \"sync\"\ntype T struct{ mu sync.RWMutex }\nfunc (t *T) f() { t.mu.RLock(); defer t.mu.RUnlock() }\n")
		if err != nil || scan(fc) < 2 {
			c.unresolved("shared-mode lock matcher failed its positive control")
		}
		c.ok(rule, nil, "no shared-mode acquisition", token.NoPos, false, "the five tracked mutexes are only ever taken exclusively (matcher verified on an embedded fixture)")
	}
}

// ================= second round of additions =================

func init() {
	extend("C14", ruleC14NoStalePosition, ruleC14SizeGetterPure)
	extend("C16", ruleC16RebuildWithReadConfig)
	extend("C17", ruleInitializingProvenance("C17.initializing-provenance"), ruleC17ResyncTolerates)
	extend("C01", ruleInitializingProvenance("C01.initializing-provenance"))
	extend("C18", ruleC18PasswordOnEveryPath, ruleC18KeyBytesVerbatim)
}

// storesFieldTransitively: functions that (directly or through statically resolved callees) assign to field fv.
func (c *Ctx) storesFieldTransitively(fv *types.Var) map[*FuncInfo]bool {
	return c.storesFieldTransitivelyWhere(fv, false)
}

// storesFieldTransitivelyWhere: as storesFieldTransitively; with nonNilOnly, stores of the nil literal do not count
// (closing a stream is not re-opening it).
func (c *Ctx) storesFieldTransitivelyWhere(fv *types.Var, nonNilOnly bool) map[*FuncInfo]bool {
	direct := map[*FuncInfo]bool{}
	for _, st := range c.storesTo(fv) {
		if nonNilOnly && st.Value != nil && isNilIdent(st.In.Pkg.TypesInfo, st.Value) {
			continue
		}
		direct[st.In] = true
	}
	reach := map[*FuncInfo]bool{}
	for f := range direct {
		reach[f] = true
	}
	for changed := true; changed; {
		changed = false
		for _, f := range c.Funcs {
			if reach[f] {
				continue
			}
			for _, cs := range f.calls {
				if cs.Target != nil && reach[cs.Target] {
					reach[f] = true
					changed = true
					break
				}
			}
		}
	}
	return reach
}

// ruleC14NoStalePosition: a local computed from the streaming reader (f.readOpReader / its byte counter) must not
// be used after the reader may have been replaced (a store to f.readOpReader, directly or in a callee).
func ruleC14NoStalePosition(c *Ctx) {
	const rule = "C14.no-stale-position"
	c.floor(rule, 1, "functions of fs.File that replace the streaming reader")
	rd := c.field("pkg/fs", "File", "readOpReader")
	if rd == nil {
		return
	}
	// re-opening is what makes a remembered byte count stale (the new stream counts from zero); closing the stream
	// (a nil store) leaves the count what it is: the handle's position
	replaces := c.storesFieldTransitivelyWhere(rd, true)
	n := 0
	for _, f := range c.Funcs {
		if f.RelPkg() != "pkg/fs" || f.Lit != nil {
			continue
		}
		info := f.Pkg.TypesInfo
		// does f replace the reader itself (directly or via callee)?
		stores := false
		walkOwn(f.Body(), func(nd ast.Node) {
			if as, ok := nd.(*ast.AssignStmt); ok {
				for i, l := range as.Lhs {
					if selField(info, l) == rd && !(len(as.Lhs) == len(as.Rhs) && isNilIdent(info, as.Rhs[i])) {
						stores = true
					}
				}
			}
		})
		for _, cs := range f.calls {
			if cs.Target != nil && replaces[cs.Target] {
				stores = true
			}
		}
		if !stores {
			continue
		}
		n++
		// locals defined from an expression that reads the reader
		type localDef struct {
			v  types.Object
			as *ast.AssignStmt
		}
		var defs []localDef
		walkOwn(f.Body(), func(nd ast.Node) {
			as, ok := nd.(*ast.AssignStmt)
			if !ok || len(as.Lhs) != len(as.Rhs) {
				return
			}
			for i, l := range as.Lhs {
				id, ok := l.(*ast.Ident)
				if !ok || id.Name == "_" {
					continue
				}
				if !mentionsField(info, as.Rhs[i], rd) {
					continue
				}
				if o := objOfIdent(info, id); o != nil {
					if v, ok := o.(*types.Var); ok && !v.IsField() {
						defs = append(defs, localDef{o, as})
					}
				}
			}
		})
		fl := c.flow(f)
		stale := ""
		for _, d := range defs {
			dd := d
			// fresh bit: set at the definition, cleared wherever the reader may be replaced
			an := &Analysis{Must: true, Entry: 1, Node: func(nd ast.Node, s State) State {
				if nd == ast.Node(dd.as) {
					return s | 1
				}
				if as, ok := nd.(*ast.AssignStmt); ok {
					for i, l := range as.Lhs {
						if selField(info, l) == rd && !(len(as.Lhs) == len(as.Rhs) && isNilIdent(info, as.Rhs[i])) {
							s &^= 1
						}
					}
				}
				for _, call := range callsIn(nd) {
					for _, cs := range f.calls {
						if cs.Call == call && cs.Target != nil && replaces[cs.Target] {
							s &^= 1
						}
					}
				}
				return s
			}}
			fl.solve(an)
			for _, b := range fl.G.Blocks {
				st := an.in[b]
				if st == unreached || !b.Live {
					continue
				}
				for _, nd := range b.Nodes {
					uses := nd != ast.Node(dd.as) && usesObj(info, nd, dd.v)
					// a plain re-definition of the variable is not a use
					if as, ok := nd.(*ast.AssignStmt); ok && uses {
						onlyLHS := true
						for _, r := range as.Rhs {
							if usesObj(info, r, dd.v) {
								onlyLHS = false
							}
						}
						if onlyLHS {
							uses = false
						}
					}
					if uses && st&1 == 0 && stale == "" {
						stale = fmt.Sprintf("%s (defined at %s, used at %s)", dd.v.Name(), c.pos(dd.as.Pos()), c.pos(nd.Pos()))
					}
					st = an.Node(nd, st)
				}
			}
		}
		c.verdictIf(stale == "", rule, f, "reader-derived locals", f.Decl.Pos(), "no value read from the streaming reader is used after the reader may have been replaced",
			"a value read from the streaming reader is used after the reader may have been re-opened: "+stale+" - after a backwards seek the stream restarts at 0, so the skip distance is computed from a stale position and the cursor ends up elsewhere than Seek reports")
	}
	if n == 0 {
		c.unresolved("no function in pkg/fs replaces File.readOpReader")
	}
}

// ruleC14SizeGetterPure: Size() of the write-cache implementations must not move the cursor or change the file.
func ruleC14SizeGetterPure(c *Ctx) {
	const rule = "C14.size-getter-pure"
	c.floor(rule, 2, "Size methods of the write-cache implementations")
	n := 0
	for _, f := range c.Funcs {
		if f.RelPkg() != "pkg/cache" || f.Decl == nil || f.Decl.Recv == nil || f.Decl.Name.Name != "Size" {
			continue
		}
		n++
		var bad []string
		for _, cs := range f.calls {
			if se, ok := ast.Unparen(cs.Call.Fun).(*ast.SelectorExpr); ok {
				switch se.Sel.Name {
				case "Seek", "Write", "Read", "Truncate", "WriteAt", "ReadAt", "WriteString":
					bad = append(bad, se.Sel.Name)
				}
			}
		}
		c.verdictIf(len(bad) == 0, rule, f, "Size", f.Decl.Pos(), "Size is a pure query", "Size() calls "+strings.Join(bad, ", ")+" on the underlying file: asking for the size (Stat, Truncate, the flush on Close) moves the cursor, so later cursor-relative reads/writes land elsewhere")
	}
	if n < half(2) {
		c.unresolved("only %d Size methods found in pkg/cache", n)
	}
}

// ruleC16RebuildWithReadConfig: the rebuild in Initialize runs with the read operations' backend/pipes/crypto.
func ruleC16RebuildWithReadConfig(c *Ctx) {
	const rule = "C16.rebuild-with-read-config"
	c.floor(rule, 1, "the recovery.Index call of STFS.Initialize and its callbacks")
	f := c.fn("pkg/fs", "(*STFS).Initialize")
	index := c.fn("pkg/recovery", "Index")
	rops := c.field("pkg/fs", "STFS", "readOps")
	wops := c.field("pkg/fs", "STFS", "writeOps")
	if f == nil || index == nil || rops == nil || wops == nil {
		return
	}
	info := f.Pkg.TypesInfo
	n := 0
	for _, cs := range f.calls {
		if cs.Target != index {
			continue
		}
		n++
		usesW, usesR := false, false
		ast.Inspect(cs.Call, func(m ast.Node) bool {
			if e, ok := m.(ast.Expr); ok {
				switch selField(info, e) {
				case wops:
					usesW = true
				case rops:
					usesR = true
				}
			}
			return true
		})
		c.verdictIf(usesR && !usesW, rule, f, fmt.Sprintf("recovery.Index#%d", n), cs.Call.Pos(), "the rebuild decrypts and verifies with the read operations' keys",
			"the rebuild of an existing tape is configured from the write operations (encryption recipient / signing identity) instead of the read operations (decryption identity / verification recipient): with encryption or signatures on, an intact tape fails to index and Initialize falls back to appending a new root")
	}
	if n == 0 {
		c.unresolved("Initialize no longer calls recovery.Index")
	}
}

// ruleInitializingProvenance: `initializing=true` (names are stored verbatim, not normalised) may only originate in
// the two root-creating functions named Initialize and is never passed to a replay of existing tape content.
func ruleInitializingProvenance(rule string) func(*Ctx) {
	return func(c *Ctx) {
		c.floor(rule, 8, "arguments bound to parameters named initializing")
		index := c.fn("pkg/recovery", "Index")
		n := 0
		for _, f := range c.Funcs {
			info := f.Pkg.TypesInfo
			root := f
			for root.Outer != nil {
				root = root.Outer
			}
			k := 0
			for _, cs := range f.calls {
				fn, ok := cs.Callee.(*types.Func)
				if !ok || !inRepo(fn) {
					continue
				}
				sig := fn.Type().(*types.Signature)
				for once := true; once; once = false {
					arg, okRole := roleArg(f, cs.Call, sig, "initializing")
					if !okRole {
						continue
					}
					n++
					k++
					if arg == nil {
						c.ok(rule, f, fmt.Sprintf("%s#%d initializing", fn.Name(), k), cs.Call.Pos(), false, "left at its zero value (false): names are normalised")
						continue
					}
					construct := fmt.Sprintf("%s#%d initializing", fn.Name(), k)
					tv := info.Types[arg]
					switch {
					case tv.Value != nil && tv.Value.String() == "false":
						c.ok(rule, f, construct, arg.Pos(), false, "constant false: names are normalised")
					case tv.Value != nil && tv.Value.String() == "true":
						okk := c.onlyFromInitialize(root, 0) && (index == nil || cs.Target != index)
						c.verdictIf(okk, rule, f, construct, arg.Pos(), "constant true in a root-creating Initialize (the root's own spelling is stored verbatim)",
							"initializing=true is passed to "+fn.Name()+" outside the creation of a fresh root: replayed names of existing content are then stored without normalisation, so equivalent spellings stop resolving and entries added later vanish after a rebuild")
					default:
						own := false
						// the flag carried in a parameter struct (`target.initializing`): every store to that field
						// must itself pass the caller's flag on (or be the constant false)
						if fv := selField(info, arg); fv != nil && fv.Name() == "initializing" {
							stores := c.storesTo(fv)
							own = len(stores) > 0
							for _, st := range stores {
								sinfo := st.In.Pkg.TypesInfo
								okStore := false
								if st.Value != nil {
									if tv := sinfo.Types[st.Value]; tv.Value != nil && tv.Value.String() == "false" {
										okStore = true
									}
									// constant true where a fresh root is created (same condition as for a positional argument)
									if tv := sinfo.Types[st.Value]; tv.Value != nil && tv.Value.String() == "true" && c.onlyFromInitialize(st.In, 0) && (index == nil || cs.Target != index) {
										okStore = true
									}
									if o := objOfIdent(sinfo, st.Value); o != nil {
										for g := st.In; g != nil; g = g.Outer {
											if pv := roleVar(g, "initializing"); pv != nil && types.Object(pv) == o {
												okStore = true
											}
										}
									}
								}
								if !okStore {
									own = false
								}
							}
						}
						if o := objOfIdent(info, arg); o != nil {
							for g := f; g != nil; g = g.Outer {
								if pv := roleVar(g, "initializing"); pv != nil && types.Object(pv) == o {
									own = true
								}
							}
						}
						c.verdictIf(own, rule, f, construct, arg.Pos(), "passes on the caller's own initializing parameter", "initializing is computed from "+exprString(arg)+" instead of being passed through")
					}
				}
			}
		}
		if n < half(8) {
			c.unresolved("only %d initializing arguments found", n)
		}
		// the flag is decided by the caller alone: no function overrides its own initializing parameter
		for _, f := range c.Funcs {
			pv := roleVar(f, "initializing")
			if pv == nil || f.Body() == nil {
				continue
			}
			info := f.Pkg.TypesInfo
			k := 0
			ast.Inspect(f.Body(), func(nd ast.Node) bool {
				switch x := nd.(type) {
				case *ast.AssignStmt:
					for _, l := range x.Lhs {
						if id, ok := l.(*ast.Ident); ok && x.Tok == token.DEFINE && info.Defs[id] == types.Object(pv) {
							continue // the one definition from the parameter struct (roleVar)
						}
						if objOfIdent(info, l) == types.Object(pv) {
							k++
							c.bad(rule, f, fmt.Sprintf("initializing overridden#%d", k), x.Pos(), "%s assigns to its initializing parameter: whether names are stored verbatim is then decided from local state instead of by the one caller that creates a fresh root; replayed names of existing content are stored without normalisation", f.Name)
						}
					}
				case *ast.UnaryExpr:
					if x.Op == token.AND && objOfIdent(info, x.X) == types.Object(pv) {
						k++
						c.bad(rule, f, fmt.Sprintf("initializing overridden#%d", k), x.Pos(), "%s takes the address of its initializing parameter", f.Name)
					}
				}
				return true
			})
		}
	}
}

// onlyFromInitialize: f is an Initialize entry point, or an unexported function all of whose statically resolved call
// sites lie in such functions (a root-creating step split out of Initialize).
func (c *Ctx) onlyFromInitialize(f *FuncInfo, depth int) bool {
	for f.Outer != nil {
		f = f.Outer
	}
	if strings.HasSuffix(strings.Split(f.Name, "$")[0], ".Initialize") {
		return true
	}
	if depth >= 3 || f.Decl == nil || f.Decl.Name.IsExported() {
		return false
	}
	callers := 0
	for _, g := range c.Funcs {
		for _, cs := range g.calls {
			if cs.Target != f {
				continue
			}
			callers++
			if g == f || !c.onlyFromInitialize(g, depth+1) {
				return false
			}
		}
	}
	// the function must not escape as a value either
	if f.Obj != nil {
		for _, g := range c.Funcs {
			info := g.Pkg.TypesInfo
			escaped := false
			callFun := map[ast.Expr]bool{}
			walkOwn(g.Body(), func(n ast.Node) {
				if call, ok := n.(*ast.CallExpr); ok {
					callFun[ast.Unparen(call.Fun)] = true
				}
			})
			walkOwn(g.Body(), func(n ast.Node) {
				if se, ok := n.(*ast.SelectorExpr); ok && info.Uses[se.Sel] == types.Object(f.Obj) && !callFun[se] {
					escaped = true
				}
				if id, ok := n.(*ast.Ident); ok && info.Uses[id] == types.Object(f.Obj) && !callFun[id] {
					// identifiers inside a called selector are visited too: only flag bare uses
					escaped = escaped || !isSelOfCall(g, id, callFun)
				}
			})
			if escaped {
				return false
			}
		}
	}
	return callers > 0
}

func isSelOfCall(g *FuncInfo, id *ast.Ident, callFun map[ast.Expr]bool) bool {
	found := false
	walkOwn(g.Body(), func(n ast.Node) {
		if se, ok := n.(*ast.SelectorExpr); ok && se.Sel == id && callFun[se] {
			found = true
		}
	})
	return found
}

// ruleC17ResyncTolerates: in the resynchronisation loop of Index/Query a header-parse error is never returned
// (only a real end of file ends it): zero padding and foreign trailers between archives are skipped.
func ruleC17ResyncTolerates(c *Ctx) {
	const rule = "C17.resync-skips-padding"
	c.floor(rule, 2, "resynchronisation loops of recovery.Index and recovery.Query")
	for _, name := range []string{"Index", "Query"} {
		f := c.fn("pkg/recovery", name)
		if f == nil {
			continue
		}
		info := f.Pkg.TypesInfo
		n := 0
		walkOwn(f.Body(), func(nd ast.Node) {
			outer, ok := nd.(*ast.ForStmt)
			if !ok {
				return
			}
			// inner loops nested in an `if err != nil` right after tr.Next()
			for _, st := range outer.Body.List {
				is, ok := st.(*ast.IfStmt)
				if !ok {
					continue
				}
				for _, st2 := range is.Body.List {
					inner, ok := st2.(*ast.ForStmt)
					if !ok {
						continue
					}
					n++
					// error variables assigned from (*tar.Reader).Next inside the inner loop
					nextErr := map[types.Object]bool{}
					ast.Inspect(inner, func(m ast.Node) bool {
						as, ok := m.(*ast.AssignStmt)
						if ok && len(as.Rhs) == 1 {
							if call, ok := ast.Unparen(as.Rhs[0]).(*ast.CallExpr); ok && isMethod(calleeObj(info, call), "archive/tar", "Reader", "Next") && len(as.Lhs) == 2 {
								nextErr[objOfIdent(info, as.Lhs[1])] = true
							}
						}
						return true
					})
					bad := ""
					// the test that directly follows the Next() assignment decides what happens to a parse error
					ast.Inspect(inner, func(m ast.Node) bool {
						blk, ok := m.(*ast.BlockStmt)
						if !ok {
							return true
						}
						for i, st := range blk.List {
							as, ok := st.(*ast.AssignStmt)
							if !ok || len(as.Rhs) != 1 || i+1 >= len(blk.List) {
								continue
							}
							call, ok := ast.Unparen(as.Rhs[0]).(*ast.CallExpr)
							if !ok || !isMethod(calleeObj(info, call), "archive/tar", "Reader", "Next") {
								continue
							}
							is2, ok := blk.List[i+1].(*ast.IfStmt)
							if !ok {
								continue
							}
							ast.Inspect(is2.Body, func(r ast.Node) bool {
								if ret, ok := r.(*ast.ReturnStmt); ok && !returnsNil(info, ret) {
									bad = c.pos(ret.Pos())
								}
								return true
							})
						}
						return true
					})
					c.verdictIf(bad == "" && len(nextErr) > 0, rule, f, fmt.Sprintf("resync loop#%d", n), inner.Pos(), "a header-parse error while resynchronising is skipped, never returned",
						"the resynchronisation loop returns the header-parse error (at "+bad+") instead of moving on to the next block: archives padded with an odd number of zero blocks (what tar(1) writes) can no longer be appended to or re-indexed")
				}
			}
		})
		if n == 0 {
			c.unresolved("no resynchronisation loop found in %s", name)
		}
	}
}

// ruleC18PasswordOnEveryPath: in the identity parsers every success path of a non-None arm either hands the
// password to a key-unwrapping call or established that the password is empty.
func ruleC18PasswordOnEveryPath(c *Ctx) {
	const rule = "C18.password-on-every-path"
	c.floor(rule, 4, "success returns of the non-None arms of ParseIdentity and ParseSignerIdentity")
	none := c.constObj("pkg/config", "NoneKey")
	for _, name := range []string{"ParseIdentity", "ParseSignerIdentity"} {
		f := c.fn("pkg/keys", name)
		if f == nil {
			continue
		}
		info := f.Pkg.TypesInfo
		pw := paramVar(f, "password")
		var fmtParam *types.Var
		for _, pv := range paramsWhere(f, func(v *types.Var) bool { return strings.HasSuffix(v.Name(), "Format") }) {
			fmtParam = pv
		}
		if pw == nil || fmtParam == nil {
			c.unresolved("parameters of %s", name)
			continue
		}
		consumes := func(n ast.Node) bool {
			hit := false
			ast.Inspect(n, func(m ast.Node) bool {
				call, ok := m.(*ast.CallExpr)
				if !ok {
					return true
				}
				fn, ok := calleeObj(info, call).(*types.Func)
				if !ok || fn.Pkg() == nil {
					return true
				}
				if !(isCryptoModule(fn.Pkg().Path()) || (c.byObj[fn] != nil && paramVar(c.byObj[fn], "password") != nil)) {
					return true
				}
				for _, a := range call.Args {
					if usesObj(info, a, pw) {
						hit = true
					}
				}
				return true
			})
			return hit
		}
		// a range loop whose body unwraps with the password counts as unwrapping (it runs once per key; an empty
		// key ring has nothing to unwrap)
		rangeX := map[ast.Node]bool{}
		walkOwn(f.Body(), func(m ast.Node) {
			if rs, ok := m.(*ast.RangeStmt); ok && consumes(rs.Body) {
				rangeX[rs.X] = true
			}
		})
		fl := c.flow(f)
		an := &Analysis{Must: true, Entry: 0,
			Node: func(n ast.Node, s State) State {
				if consumes(n) || rangeX[n] {
					return s | 1
				}
				return s
			},
			Edge: func(b *cfg.Block, i int, s State) State {
				for _, ft := range fl.edgeFacts(b, i) {
					be, ok := ast.Unparen(ft.E).(*ast.BinaryExpr)
					if !ok || objOfIdent(info, be.X) != types.Object(pw) {
						continue
					}
					if v, ok := constString(info, be.Y); ok && v == "" {
						if be.Op == token.EQL && ft.Pos || be.Op == token.NEQ && !ft.Pos {
							return s | 1 // password known to be empty: nothing to unwrap with
						}
					}
				}
				return s
			}}
		fl.solve(an)
		for _, t := range c.switchesOn(f, fmtParam) {
			for _, arm := range t.Arms {
				if arm.Default || len(arm.Labels) == 0 || arm.Labels[0] == none {
					continue
				}
				k := 0
				for _, st := range arm.Body {
					ast.Inspect(st, func(m ast.Node) bool {
						if _, ok := m.(*ast.FuncLit); ok {
							return false
						}
						ret, ok := m.(*ast.ReturnStmt)
						if !ok || len(ret.Results) == 0 {
							return true
						}
						// error returns are fine
						if len(ret.Results) == 2 && !returnsNil(info, ret) {
							return true
						}
						k++
						s, reach := fl.before(an, ret)
						if !reach {
							return true
						}
						good := s&1 != 0 || consumes(ret)
						c.verdictIf(good, rule, f, fmt.Sprintf("arm %s return#%d", arm.Labels[0].Name(), k), ret.Pos(), "a key is handed out only after the password was used to unwrap it (or is known to be empty)",
							"a private key is returned on a path that never uses the password (and has not established it is empty): the key parses with any password")
						return true
					})
				}
			}
		}
	}
}

// ruleC18KeyBytesVerbatim: the key material parameter is handed to the crypto module unmodified; it may only be
// re-assigned from what a crypto-module call produced.
func ruleC18KeyBytesVerbatim(c *Ctx) {
	const rule = "C18.key-bytes-verbatim"
	c.floor(rule, 4, "the four key parsers")
	for _, name := range []string{"ParseIdentity", "ParseSignerIdentity", "ParseRecipient", "ParseSignerRecipient"} {
		f := c.fn("pkg/keys", name)
		if f == nil {
			continue
		}
		info := f.Pkg.TypesInfo
		var key *types.Var
		for _, pv := range paramsWhere(f, func(v *types.Var) bool { return v.Name() == "privkey" || v.Name() == "pubkey" }) {
			key = pv
		}
		if key == nil {
			c.unresolved("key parameter of %s", name)
			continue
		}
		fl := c.flow(f)
		bad := ""
		walkOwn(f.Body(), func(nd ast.Node) {
			as, ok := nd.(*ast.AssignStmt)
			if !ok {
				return
			}
			for _, l := range as.Lhs {
				if objOfIdent(info, l) != types.Object(key) {
					continue
				}
				// allowed only after a crypto-module call consumed the original bytes
				okk, _ := fl.dominatedBy(as, func(m ast.Node) bool {
					for _, call := range callsIn(m) {
						if fn, ok := calleeObj(info, call).(*types.Func); ok && fn.Pkg() != nil && isCryptoModule(fn.Pkg().Path()) && usesObj(info, call, key) {
							return true
						}
					}
					return false
				}, nil)
				if !okk {
					bad = c.pos(as.Pos()) + " (" + truncate(nodeString(c, as), 60) + ")"
				}
			}
		})
		c.verdictIf(bad == "", rule, f, "key bytes", f.Decl.Pos(), "the key bytes reach the crypto module exactly as supplied", "the key bytes are rewritten before the crypto module sees them at "+bad+": password-wrapped keys are binary, so trimming/normalising them makes some generated keys unparsable with their own password")
	}
}

// ruleStateless: the pipeline packages keep no package-level mutable state (caches, memo tables): a verdict or a
// plaintext remembered across calls is replayed for inputs/keys it was never computed for.
func ruleStateless(rule string, rels ...string) func(*Ctx) {
	return func(c *Ctx) {
		c.floor(rule, len(rels), "package-level variable declarations of the pipeline packages")
		for _, rel := range rels {
			p := c.pkg(rel)
			if p == nil {
				continue
			}
			var bad []string
			for _, file := range p.Syntax {
				for _, d := range file.Decls {
					gd, ok := d.(*ast.GenDecl)
					if !ok || gd.Tok != token.VAR {
						continue
					}
					for _, sp := range gd.Specs {
						vs := sp.(*ast.ValueSpec)
						for _, id := range vs.Names {
							v, ok := p.TypesInfo.Defs[id].(*types.Var)
							if !ok || id.Name == "_" {
								continue
							}
							// sentinel errors are immutable by convention
							if n, ok := v.Type().(*types.Named); ok && n.Obj().Name() == "error" {
								continue
							}
							if types.Identical(v.Type(), types.Universe.Lookup("error").Type()) {
								continue
							}
							switch v.Type().Underlying().(type) {
							case *types.Basic:
								continue // plain constants-as-vars (strings, numbers)
							}
							if frozenTable(p, v) {
								continue // a dispatch table: literal, elements are functions or constants, never written
							}
							bad = append(bad, id.Name+" "+v.Type().String()+" at "+c.pos(id.Pos()))
						}
					}
				}
			}
			c.verdictIf(len(bad) == 0, rule, nil, "package "+rel, token.NoPos, "no package-level mutable state",
				"package "+rel+" declares package-level state ("+strings.Join(bad, "; ")+"): results remembered across calls (e.g. keyed by ciphertext or signature only) are handed out for other keys or other signed content")
		}
	}
}

// frozenTable: v is a package-level map, slice or array of functions or basic values (or structs of those) that is
// initialised by a composite literal and never written afterwards - a dispatch table, not state.
func frozenTable(p *packages.Package, v *types.Var) bool {
	var elem types.Type
	switch t := v.Type().Underlying().(type) {
	case *types.Map:
		elem = t.Elem()
	case *types.Slice:
		elem = t.Elem()
	case *types.Array:
		elem = t.Elem()
	default:
		return false
	}
	var plain func(t types.Type, depth int) bool
	plain = func(t types.Type, depth int) bool {
		switch u := t.Underlying().(type) {
		case *types.Basic, *types.Signature:
			return true
		case *types.Struct:
			if depth > 2 {
				return false
			}
			for i := 0; i < u.NumFields(); i++ {
				if !plain(u.Field(i).Type(), depth+1) {
					return false
				}
			}
			return true
		}
		return false
	}
	if !plain(elem, 0) {
		return false
	}
	literal, written := false, false
	for _, file := range p.Syntax {
		ast.Inspect(file, func(n ast.Node) bool {
			switch x := n.(type) {
			case *ast.ValueSpec:
				for i, nm := range x.Names {
					if p.TypesInfo.Defs[nm] == types.Object(v) && i < len(x.Values) {
						if _, ok := ast.Unparen(x.Values[i]).(*ast.CompositeLit); ok {
							literal = true
						}
					}
				}
			case *ast.AssignStmt:
				for _, l := range x.Lhs {
					l = ast.Unparen(l)
					if ix, ok := l.(*ast.IndexExpr); ok {
						l = ast.Unparen(ix.X)
					}
					if id, ok := l.(*ast.Ident); ok && p.TypesInfo.Uses[id] == types.Object(v) {
						written = true
					}
				}
			case *ast.UnaryExpr:
				if id, ok := ast.Unparen(x.X).(*ast.Ident); ok && x.Op == token.AND && p.TypesInfo.Uses[id] == types.Object(v) {
					written = true
				}
			case *ast.CallExpr:
				// delete(m, k), clear(m)
				if id, ok := ast.Unparen(x.Fun).(*ast.Ident); ok && (id.Name == "delete" || id.Name == "clear") && len(x.Args) > 0 {
					if a, ok := ast.Unparen(x.Args[0]).(*ast.Ident); ok && p.TypesInfo.Uses[a] == types.Object(v) {
						written = true
					}
				}
			}
			return true
		})
	}
	return literal && !written
}

func init() {
	extend("C03", ruleStateless("C03.stateless-compression", "pkg/compression"))
	extend("C08", ruleStateless("C08.stateless-verification", "pkg/signature", "pkg/recovery"))
	extend("C09", ruleStateless("C09.stateless-decryption", "pkg/encryption", "pkg/recovery"))
}

// ruleC10ErrorsNotDropped: in the library's drive/index path no error result is discarded (expression statement or
// blank identifier), apart from a frozen table of best-effort cleanups.
func ruleC10ErrorsNotDropped(c *Ctx) {
	const rule = "C10.errors-not-dropped"
	c.floor(rule, 8, "discarded error results in pkg/operations, pkg/recovery, pkg/persisters, pkg/tape, pkg/fs, pkg/inventory, internal/tarext (each must be in the exemption table)")
	// frozen exceptions (callee name -> reason)
	exempt := map[string]string{
		"CloseReader":         "deferred best-effort release after the operation's own error has been decided",
		"CloseWriter":         "deferred best-effort release inside the writer guard",
		"closeWithoutLocking": "seek re-open: the previous stream may legitimately be closed already",
		"Debug":               "logging", "Trace": "logging", "Info": "logging", "Error": "logging",
	}
	scope := map[string]bool{"pkg/operations": true, "pkg/recovery": true, "pkg/persisters": true, "pkg/tape": true, "pkg/fs": true, "pkg/inventory": true, "internal/tarext": true}
	errT := types.Universe.Lookup("error").Type()
	n := 0
	for _, f := range c.Funcs {
		if !scope[f.RelPkg()] {
			continue
		}
		info := f.Pkg.TypesInfo
		// statements that discard: ExprStmt(call) and assignments with _ in the error slot
		discards := map[*ast.CallExpr]string{}
		walkOwn(f.Body(), func(nd ast.Node) {
			switch s := nd.(type) {
			case *ast.ExprStmt:
				if call, ok := ast.Unparen(s.X).(*ast.CallExpr); ok {
					discards[call] = "result discarded"
				}
			case *ast.DeferStmt:
				discards[s.Call] = "deferred, result discarded"
			case *ast.GoStmt:
				discards[s.Call] = "go statement"
			case *ast.AssignStmt:
				if len(s.Rhs) == 1 {
					if call, ok := ast.Unparen(s.Rhs[0]).(*ast.CallExpr); ok {
						if id, ok := s.Lhs[len(s.Lhs)-1].(*ast.Ident); ok && id.Name == "_" {
							discards[call] = "error assigned to _"
						}
					}
				}
			}
		})
		// best-effort clean-up on a path that already reports an error: the discarding statement is directly followed by
		// `return ..., err` inside the branch that established `err != nil`
		onErrorPath := map[*ast.CallExpr]bool{}
		ast.Inspect(f.Body(), func(nd ast.Node) bool {
			if _, isLit := nd.(*ast.FuncLit); isLit {
				return false
			}
			var list []ast.Stmt
			switch x := nd.(type) {
			case *ast.BlockStmt:
				list = x.List
			case *ast.CaseClause:
				list = x.Body
			}
			for i := 0; i+1 < len(list); i++ {
				var call *ast.CallExpr
				switch s := list[i].(type) {
				case *ast.ExprStmt:
					call, _ = ast.Unparen(s.X).(*ast.CallExpr)
				case *ast.AssignStmt:
					if len(s.Rhs) == 1 {
						call, _ = ast.Unparen(s.Rhs[0]).(*ast.CallExpr)
					}
				}
				ret, ok := list[i+1].(*ast.ReturnStmt)
				if call == nil || !ok || len(ret.Results) == 0 {
					continue
				}
				eo := objOfIdent(info, ret.Results[len(ret.Results)-1])
				if eo == nil || !types.Identical(eo.Type(), errT) {
					continue
				}
				for _, cl := range enclosingConds(f.Body(), list[i]) {
					if be, ok := ast.Unparen(cl.e).(*ast.BinaryExpr); ok && be.Op == token.NEQ && cl.pos && objOfIdent(info, be.X) == eo && isNilIdent(info, be.Y) {
						onErrorPath[call] = true
					}
				}
			}
			return true
		})
		k := 0
		for _, cs := range f.calls {
			tv, ok := info.Types[cs.Call]
			if !ok || tv.Type == nil {
				continue
			}
			returnsErr := false
			switch t := tv.Type.(type) {
			case *types.Tuple:
				if t.Len() > 0 && types.Identical(t.At(t.Len()-1).Type(), errT) {
					returnsErr = true
				}
			default:
				if types.Identical(t, errT) {
					returnsErr = true
				}
			}
			if !returnsErr {
				continue
			}
			n++
			how, dropped := discards[cs.Call]
			if !dropped {
				continue // checked or propagated by the surrounding statement
			}
			k++
			name := ""
			if cs.Callee != nil {
				name = cs.Callee.Name()
			}
			construct := fmt.Sprintf("dropped %s#%d", name, k)
			if isMethod(cs.Callee, "io", "PipeWriter", "Close") || isMethod(cs.Callee, "io", "PipeWriter", "CloseWithError") {
				c.ok(rule, f, construct, cs.Call.Pos(), false, "exempt (%s): closing a pipe writer always returns nil", how)
				continue
			}
			// in-memory writers of the standard library are documented never to fail
			if fn, ok := cs.Callee.(*types.Func); ok {
				if sig, ok := fn.Type().(*types.Signature); ok && sig.Recv() != nil {
					rt := types.Unalias(sig.Recv().Type())
					if pt, ok := rt.(*types.Pointer); ok {
						rt = types.Unalias(pt.Elem())
					}
					if nt, ok := rt.(*types.Named); ok && nt.Obj().Pkg() != nil {
						q := nt.Obj().Pkg().Path() + "." + nt.Obj().Name()
						if (q == "strings.Builder" || q == "bytes.Buffer") && strings.HasPrefix(fn.Name(), "Write") {
							c.ok(rule, f, construct, cs.Call.Pos(), false, "exempt (%s): %s.%s always returns a nil error", how, q, fn.Name())
							continue
						}
					}
				}
			}
			if why, ok := exempt[name]; ok {
				c.ok(rule, f, construct, cs.Call.Pos(), false, "exempt (%s): %s", how, why)
				continue
			}
			if cs.Go {
				continue // the goroutine body is analysed on its own
			}
			if onErrorPath[cs.Call] {
				c.ok(rule, f, construct, cs.Call.Pos(), false, "exempt (%s): best-effort clean-up on a path that returns the error already established", how)
				continue
			}
			c.bad(rule, f, construct, cs.Call.Pos(), "the error of %s is dropped (%s): a failure at this point is invisible to the caller, which then reports success or continues on a half-done operation", exprString(cs.Call.Fun), how)
		}
	}
	if n < half(150) {
		c.unresolved("only %d error-returning calls found in the drive/index path", n)
	}
}

// ruleC11NoNewGoroutines: the lockset / lock-order analysis assumes the library starts goroutines only where the
// frozen table says; a new `go` statement changes the concurrency model and must be reviewed.
func ruleC11NoNewGoroutines(c *Ctx) {
	const rule = "C11.goroutine-sites"
	c.floor(rule, 1, "go statements in library packages")
	allowed := map[string]string{
		"pkg/fs":           "streaming restore behind File.Read / File.Seek (modelled by the pipe wait-for edge)",
		"internal/ftp":     "FTP server plumbing outside the filesystem",
		"internal/logging": "log line pump, touches no filesystem state",
	}
	n := 0
	for _, f := range c.Funcs {
		rel := f.RelPkg()
		if !(strings.HasPrefix(rel, "pkg/") || strings.HasPrefix(rel, "internal/")) || strings.HasPrefix(rel, "internal/db/") {
			continue
		}
		k := 0
		for _, cs := range f.calls {
			if !cs.Go {
				continue
			}
			n++
			k++
			why, ok := allowed[rel]
			c.verdictIf(ok, rule, f, fmt.Sprintf("go#%d", k), cs.Call.Pos(), "known goroutine site: "+why,
				"package "+rel+" starts a goroutine: work on the drive, the tar writer or the index now runs concurrently with its caller, outside the locking discipline the analysis (and the code) assumes")
		}
	}
	if n == 0 {
		c.unresolved("no go statement found in library packages (the streaming read goroutine is gone?)")
	}
}

func init() {
	extend("C10", ruleC10ErrorsNotDropped)
	extend("C11", ruleC11NoNewGoroutines)
}

// ================= third round (after the second batch of independently seeded changes) =================

func init() {
	extend("C03", ruleC03CopyAgreement, ruleC03CounterIntegrity)
	extend("C04", ruleC04LocationOperands)
	extend("C05", ruleC05FlushUnconditional)
	extend("C14", ruleC14SizeAsksUnderlying)
	extend("C01", ruleReplayEveryRecord("C01.replay-every-record"))
	extend("C07", ruleReplayEveryRecord("C07.replay-every-record"))
	extend("C17", ruleC17NoCutsetTrim)
	extend("C08", ruleFetchErrorPropagated("C08.restore-error-propagated"))
}

// ruleC03CopyAgreement: per drive kind, the size pass and the write pass move the content with the same copy
// primitive and buffer (codecs that frame by write size - OpenPGP partial lengths - encode differently otherwise).
func ruleC03CopyAgreement(c *Ctx) {
	const rule = "C03.two-pass-copy-agreement"
	c.floor(rule, 2, "writing functions with a size pass and a write pass")
	p := c.pipeFns()
	if p.compress == nil {
		return
	}
	for _, f := range contentWriters(c, p) {
		info := f.Pkg.TypesInfo
		var comps []*CallSite
		for _, cs := range f.calls {
			if cs.Target == p.compress {
				comps = append(comps, cs)
			}
		}
		if len(comps) != 2 {
			continue
		}
		// copies grouped by pass, described as "cond-polarity:callee(bufexpr)"
		sig := [2][]string{}
		for _, cs := range f.calls {
			if !(isPkgFunc(cs.Callee, "io", "Copy") || isPkgFunc(cs.Callee, "io", "CopyBuffer") || isPkgFunc(cs.Callee, "io", "CopyN")) || len(cs.Call.Args) < 2 {
				continue
			}
			_, dcall, _ := defOf(f, objOfIdent(info, cs.Call.Args[0]))
			pass := -1
			if dcall == comps[0].Call {
				pass = 0
			} else if dcall == comps[1].Call {
				pass = 1
			}
			if pass < 0 {
				continue
			}
			desc := cs.Callee.Name()
			if len(cs.Call.Args) == 3 {
				if _, bcall, _ := defOf(f, objOfIdent(info, cs.Call.Args[2])); bcall != nil {
					desc += "(" + exprString(bcall) + ")"
				}
			}
			// innermost enclosing condition (drive kind)
			conds := enclosingCondsFlow(info, f.Body(), cs.Call)
			if len(conds) > 0 {
				desc = fmt.Sprintf("%s=%v:%s", exprString(conds[0].e), conds[0].pos, desc)
			}
			sig[pass] = append(sig[pass], desc)
		}
		sort.Strings(sig[0])
		sort.Strings(sig[1])
		same := len(sig[0]) > 0 && strings.Join(sig[0], ";") == strings.Join(sig[1], ";")
		c.verdictIf(same, rule, f, "copy primitives", comps[1].Call.Pos(), "both passes copy with "+strings.Join(sig[0], "; "),
			fmt.Sprintf("the size pass copies with [%s] but the write pass with [%s]: codecs whose framing follows the size of each Write (OpenPGP partial-length packets) then produce a different encoded length than the header announces", strings.Join(sig[0], "; "), strings.Join(sig[1], "; ")))
	}
}

// ruleC03CounterIntegrity: the byte counters that measure the encoded size are advanced only by their own Write/Read.
func ruleC03CounterIntegrity(c *Ctx) {
	const rule = "C03.counter-integrity"
	c.floor(rule, 1, "stores to the BytesRead fields of the ioext counters")
	n := 0
	for _, typ := range []string{"CounterWriter", "CounterReader", "CounterReadCloser", "CounterReadSeekCloser"} {
		fv := c.field("internal/ioext", typ, "BytesRead")
		if fv == nil {
			continue
		}
		for _, st := range c.storesTo(fv) {
			n++
			inIoext := st.In.RelPkg() == "internal/ioext"
			_, isLit := st.Node.(*ast.KeyValueExpr)
			// initialisation in a composite literal with a position (tape readers start at an offset) is construction
			c.verdictIf(inIoext || isLit, rule, st.In, fmt.Sprintf("store %s.BytesRead#%d", typ, n), st.Node.Pos(), "counter advanced by its own method / initialised at construction",
				"the byte counter is assigned directly outside internal/ioext: the encoded size that becomes hdr.Size is then not what the pipeline actually produced (e.g. preset from a stale FileInfo size)")
		}
	}
	if n == 0 {
		c.unresolved("no store to any ioext counter found")
	}
}

// sqlPiece is one piece of an SQL text built by fmt.Sprintf or by string concatenation: a literal or an operand.
type sqlPiece struct {
	lit  string
	expr ast.Expr
}

// flattenSQL turns Sprintf(format, a, b, ...) / "lit" + a + "lit" + ... (and locals defined that way) into pieces.
func flattenSQL(f *FuncInfo, e ast.Expr, depth int) []sqlPiece {
	info := f.Pkg.TypesInfo
	e = ast.Unparen(e)
	if s, ok := constString(info, e); ok {
		return []sqlPiece{{lit: s}}
	}
	switch x := e.(type) {
	case *ast.BinaryExpr:
		if x.Op == token.ADD {
			return append(flattenSQL(f, x.X, depth), flattenSQL(f, x.Y, depth)...)
		}
	case *ast.CallExpr:
		if isPkgFunc(calleeObj(info, x), "fmt", "Sprintf") && len(x.Args) >= 1 {
			if format, ok := constString(info, x.Args[0]); ok {
				var out []sqlPiece
				parts := strings.Split(strings.ReplaceAll(format, "%s", "%v"), "%v")
				for i, p := range parts {
					out = append(out, sqlPiece{lit: p})
					if i < len(parts)-1 && i+1 < len(x.Args) {
						out = append(out, sqlPiece{expr: x.Args[i+1]})
					}
				}
				return out
			}
		}
	case *ast.Ident:
		if depth < 2 {
			if v, ok := info.Uses[x].(*types.Var); ok && !v.IsField() {
				if st, _, _ := defOf(f, v); st != nil && len(st.Rhs) == 1 {
					return flattenSQL(f, st.Rhs[0], depth+1)
				}
			}
		}
	}
	return []sqlPiece{{expr: e}}
}

// ruleC04LocationOperands: in the last-position query the record column is the one multiplied by the record size.
func ruleC04LocationOperands(c *Ctx) {
	const rule = "C04.location-operands"
	c.floor(rule, 1, "the combined-location expression of GetLastIndexedRecordAndBlock")
	f := c.fn("pkg/persisters", "(*MetadataPersister).GetLastIndexedRecordAndBlock")
	if f == nil {
		return
	}
	n := 0
	for _, cs := range f.calls {
		fn, ok := cs.Callee.(*types.Func)
		if !ok || fn.Name() != "Raw" || fn.Pkg() == nil || fn.Pkg().Path() != queriesPath || len(cs.Call.Args) == 0 {
			continue
		}
		pieces := flattenSQL(f, cs.Call.Args[0], 0)
		// the operand right before the literal that starts with "*$1", and the next operand after it
		for i, p := range pieces {
			if p.expr != nil || !strings.Contains(p.lit, "*$1") {
				continue
			}
			var mul, add ast.Expr
			for k := i - 1; k >= 0; k-- {
				if pieces[k].expr != nil {
					mul = pieces[k].expr
					break
				}
				if strings.TrimSpace(strings.Trim(pieces[k].lit, "(")) != "" && k != i {
					break
				}
			}
			for k := i + 1; k < len(pieces); k++ {
				if pieces[k].expr != nil {
					add = pieces[k].expr
					break
				}
			}
			if mul == nil || add == nil {
				continue
			}
			n++
			mc, ac := nameClass(lastSelName(mul)), nameClass(lastSelName(add))
			good := mc.axis == "rec" && ac.axis == "blk" && mc.age == "lastknown" && ac.age == "lastknown"
			c.verdictIf(good, rule, f, "location", cs.Call.Pos(), "location = lastknownrecord*recordSize + lastknownblock",
				fmt.Sprintf("the combined location multiplies %s by the record size and adds %s: rows are then ordered by the wrong quantity, so the 'last indexed' position is not the end of the tape once it spans more than one record", exprString(mul), exprString(add)))
		}
	}
	if n == 0 {
		c.unresolved("no location expression (`... *$1 ...`) found in GetLastIndexedRecordAndBlock")
	}
}

func lastSelName(e ast.Expr) string {
	if se, ok := ast.Unparen(e).(*ast.SelectorExpr); ok {
		return se.Sel.Name
	}
	return types.ExprString(e)
}

// ruleC05FlushUnconditional: in the trailer closure the final flush of a tape record depends on nothing but
// "dirty" and "not a regular file".
func ruleC05FlushUnconditional(c *Ctx) {
	const rule = "C05.flush-unconditional"
	c.floor(rule, 1, "the Flush call of the trailer closure")
	newTW := c.fn("internal/tarext", "NewTapeWriter")
	if newTW == nil {
		return
	}
	l, isRegCarrier := c.tapeCleanup(newTW)
	if l == nil {
		return
	}
	info := l.Pkg.TypesInfo
	n := 0
	for _, cs := range l.calls {
		if !isMethod(cs.Callee, "bufio", "Writer", "Flush") {
			continue
		}
		n++
		var extra []string
		for _, cl := range enclosingCondsFlow(info, l.Body(), cs.Call) {
			e := ast.Unparen(cl.e)
			if _, ok := e.(*ast.StarExpr); ok && cl.pos {
				continue // *dirty
			}
			if u, ok := e.(*ast.UnaryExpr); ok && u.Op == token.NOT {
				if _, ok := ast.Unparen(u.X).(*ast.StarExpr); ok && !cl.pos {
					continue // early exit on !*dirty
				}
				if isRegCarrier(info, u.X) && cl.pos {
					continue // !isRegular
				}
			}
			if isRegCarrier(info, e) && !cl.pos {
				continue
			}
			// the error test of the call itself: `if err := bw.Flush(); err != nil`
			if containsNode(cl.e, cs.Call) {
				continue
			}
			extra = append(extra, exprString(cl.e))
		}
		c.verdictIf(len(extra) == 0, rule, l, fmt.Sprintf("Flush#%d", n), cs.Call.Pos(), "the buffered tail of the archive is flushed whenever something was written to a tape",
			"the final Flush additionally depends on "+strings.Join(extra, ", ")+": for some archive lengths the buffered tail (last data, padding, trailer) never reaches the tape")
	}
	if n == 0 {
		c.bad(rule, l, "Flush#1", l.Pos(), "the trailer closure no longer flushes the tape buffer")
	}
}

// ruleC14SizeAsksUnderlying: Size() of a write cache asks the underlying object, it is not a shadow counter.
func ruleC14SizeAsksUnderlying(c *Ctx) {
	const rule = "C14.size-asks-underlying"
	c.floor(rule, 2, "Size methods of the write-cache implementations")
	for _, f := range c.Funcs {
		if f.RelPkg() != "pkg/cache" || f.Decl == nil || f.Decl.Recv == nil || f.Decl.Name.Name != "Size" {
			continue
		}
		recv := receiverVar(f)
		asks := false
		for _, cs := range f.calls {
			se, ok := ast.Unparen(cs.Call.Fun).(*ast.SelectorExpr)
			if !ok {
				continue
			}
			switch se.Sel.Name {
			case "Stat", "Len", "Size":
				if usesObj(f.Pkg.TypesInfo, se.X, recv) {
					asks = true
				}
			}
		}
		// len(b.data): the content itself is asked
		ast.Inspect(f.Body(), func(m ast.Node) bool {
			if call, ok := m.(*ast.CallExpr); ok && len(call.Args) == 1 {
				if id, ok := ast.Unparen(call.Fun).(*ast.Ident); ok {
					if b, ok := f.Pkg.TypesInfo.Uses[id].(*types.Builtin); ok && b.Name() == "len" && usesObj(f.Pkg.TypesInfo, call.Args[0], recv) {
						if _, isSlice := f.Pkg.TypesInfo.TypeOf(call.Args[0]).Underlying().(*types.Slice); isSlice {
							asks = true
						}
					}
				}
			}
			return true
		})
		c.verdictIf(asks, rule, f, "Size source", f.Decl.Pos(), "the size is asked from the underlying file/buffer",
			"Size() does not ask the underlying file or buffer (Stat/Len) but returns separately tracked state: overwriting at an offset, or truncating through another path, makes it disagree with the content length that is flushed")
	}
}

// ruleReplayEveryRecord: inside recovery.Index a header reaches indexHeader under no condition other than the
// caller's `offset` skip: replay applies every record of the tape, in order.
func ruleReplayEveryRecord(rule string) func(*Ctx) {
	return func(c *Ctx) {
		c.floor(rule, 2, "indexHeader calls in recovery.Index")
		f := c.fn("pkg/recovery", "Index")
		ih := c.fn("pkg/recovery", "indexHeader")
		if f == nil || ih == nil {
			return
		}
		info := f.Pkg.TypesInfo
		offset := roleVar(f, "offset")
		n := 0
		for _, cs := range f.calls {
			if cs.Target != ih {
				continue
			}
			n++
			var extra []string
			for _, cl := range enclosingConds(f.Body(), cs.Call) {
				if containsNode(cl.e, cs.Call) {
					continue
				}
				if offset != nil && usesObj(info, cl.e, offset) && cl.pos {
					continue // i >= offset
				}
				// the drive-kind split (reader.DriveIsRegular) selects which loop runs
				if se, ok := ast.Unparen(cl.e).(*ast.SelectorExpr); ok && se.Sel.Name == "DriveIsRegular" {
					continue
				}
				extra = append(extra, exprString(cl.e))
			}
			// skip statements (`continue`) between the header read and this call, other than the end-of-data handling
			c.verdictIf(len(extra) == 0, rule, f, fmt.Sprintf("indexHeader#%d", n), cs.Call.Pos(), "every header past the caller's offset is applied",
				"a header is applied to the index only when additionally "+strings.Join(extra, " and ")+": replay silently skips records, so an index replayed from an earlier state does not converge to a from-scratch rebuild")
		}
		if n < 2 {
			c.unresolved("only %d indexHeader calls in recovery.Index", n)
		}
	}
}

// ruleC17NoCutsetTrim: strings.Trim/TrimLeft/TrimRight take a *cutset*; with a multi-character argument such as
// "./" they strip every leading dot and slash. Path normalisation must use the prefix/suffix forms.
func ruleC17NoCutsetTrim(c *Ctx) {
	const rule = "C17.no-cutset-trim"
	scan := func(cc *Ctx, report bool) int {
		n := 0
		for _, f := range cc.Funcs {
			rel := f.RelPkg()
			if !(strings.HasPrefix(rel, "pkg/") || strings.HasPrefix(rel, "internal/")) || strings.HasPrefix(rel, "internal/db/") {
				continue
			}
			info := f.Pkg.TypesInfo
			for _, cs := range f.calls {
				o := cs.Callee
				if !(isPkgFunc(o, "strings", "TrimLeft") || isPkgFunc(o, "strings", "TrimRight") || isPkgFunc(o, "strings", "Trim")) || len(cs.Call.Args) != 2 {
					continue
				}
				cut, ok := constString(info, cs.Call.Args[1])
				if !ok || len(cut) < 2 {
					continue
				}
				n++
				if report {
					c.bad(rule, f, fmt.Sprintf("%s#%d", o.Name(), n), cs.Call.Pos(), "strings.%s(_, %q) strips every leading/trailing character of the set, not the prefix %q: names such as \"/.config\" lose their dot, so different paths collapse onto one index row", o.Name(), cut, cut)
				}
			}
		}
		return n
	}
	if scan(c, true) == 0 {
		fc, err := fixtureCtx("pkg/fixture", "package fixture\nimport \"strings\"\nfunc f(p string) string { return strings.TrimLeft(p, \"./\") }\n")
		if err != nil || scan(fc, false) != 1 {
			c.unresolved("cutset-trim matcher failed its positive control")
		}
		c.ok(rule, nil, "no cutset trim", token.NoPos, false, "no strings.Trim*/cutset call with a multi-character set on the library's paths (matcher verified on an embedded fixture)")
	}
}

// ruleFetchErrorPropagated: Operations.Restore ends with the error of the first failing recovery.Fetch.
func ruleFetchErrorPropagated(rule string) func(*Ctx) {
	return func(c *Ctx) {
		c.floor(rule, 1, "recovery.Fetch calls in pkg/operations")
		fetch := c.fn("pkg/recovery", "Fetch")
		if fetch == nil {
			return
		}
		n := 0
		for _, f := range c.Funcs {
			if f.RelPkg() != "pkg/operations" {
				continue
			}
			for _, cs := range f.calls {
				if cs.Target != fetch {
					continue
				}
				n++
				// ... and unconditionally: the error branch contains no way out other than returning the error (no
				// `continue`/`break` for "harmless" errors - io.EOF from a forged size is not proof of an empty entry)
				escapes := false
				walkOwn(f.Body(), func(nd ast.Node) {
					is, ok := nd.(*ast.IfStmt)
					if !ok {
						return
					}
					as, ok := is.Init.(*ast.AssignStmt)
					if !ok || len(as.Rhs) != 1 || ast.Unparen(as.Rhs[0]) != ast.Expr(cs.Call) {
						return
					}
					ast.Inspect(is.Body, func(m ast.Node) bool {
						switch x := m.(type) {
						case *ast.FuncLit:
							return false
						case *ast.BranchStmt:
							escapes = true
						case *ast.ReturnStmt:
							if returnsNil(f.Pkg.TypesInfo, x) {
								escapes = true
							}
						}
						return true
					})
				})
				c.verdictIf(errorReturned(f, cs.Call) && !escapes, rule, f, fmt.Sprintf("Fetch#%d", n), cs.Call.Pos(), "a failing member (e.g. a content signature mismatch) ends the restore with that error",
					"the error of recovery.Fetch is not returned immediately and unconditionally: a later successful member overwrites it, so a restore that delivered altered content reports success")
			}
		}
		if n == 0 {
			c.unresolved("no recovery.Fetch call in pkg/operations")
		}
	}
}

// ================= generic discipline rules =================

func init() {
	extend("C02", ruleArgumentSelection("C02.argument-selection"))
	extend("C04", ruleArgumentSelection("C04.argument-selection"))
	extend("C10", ruleC10ErrorToSuccess)
}

// ruleArgumentSelection: at a call of a repository function, two parameters of identical type must not receive
// arguments whose own names are each other's parameter names (f(block, record) for f(record, block)).
func ruleArgumentSelection(rule string) func(*Ctx) {
	return func(c *Ctx) {
		c.floor(rule, 50, "call sites of repository functions with two or more same-typed parameters")
		n := 0
		norm := func(s string) string { return strings.ToLower(strings.TrimLeft(s, "_")) }
		argName := func(info *types.Info, e ast.Expr) string {
			e = stripConv(info, e)
			switch x := e.(type) {
			case *ast.Ident:
				return norm(x.Name)
			case *ast.SelectorExpr:
				return norm(x.Sel.Name)
			}
			return ""
		}
		for _, f := range c.Funcs {
			if strings.HasPrefix(f.RelPkg(), "internal/db/") {
				continue
			}
			info := f.Pkg.TypesInfo
			k := 0
			for _, cs := range f.calls {
				fn, ok := cs.Callee.(*types.Func)
				if !ok || !inRepo(fn) || strings.HasPrefix(funcPkgPath(fn), modelsPath) {
					continue
				}
				sig := fn.Type().(*types.Signature)
				if sig.Variadic() || sig.Params().Len() < 2 || len(cs.Call.Args) != sig.Params().Len() {
					continue
				}
				counted := false
				swapped := ""
				for i := 0; i < sig.Params().Len(); i++ {
					for j := i + 1; j < sig.Params().Len(); j++ {
						pi, pj := sig.Params().At(i), sig.Params().At(j)
						if !types.Identical(pi.Type(), pj.Type()) || pi.Name() == "" || pj.Name() == "" || pi.Name() == "_" {
							continue
						}
						counted = true
						ai, aj := argName(info, cs.Call.Args[i]), argName(info, cs.Call.Args[j])
						if ai == "" || aj == "" || ai == aj {
							continue
						}
						if ai == norm(pj.Name()) && aj == norm(pi.Name()) {
							swapped = fmt.Sprintf("argument %q is passed for parameter %q and %q for %q", exprString(cs.Call.Args[i]), pi.Name(), exprString(cs.Call.Args[j]), pj.Name())
						}
					}
				}
				if !counted {
					continue
				}
				n++
				k++
				c.verdictIf(swapped == "", rule, f, fmt.Sprintf("%s#%d", fn.Name(), k), cs.Call.Pos(), "same-typed arguments are in parameter order",
					swapped+": two same-typed arguments appear to be swapped")
			}
		}
		if n < half(50) {
			c.unresolved("only %d candidate call sites for the argument-selection rule", n)
		}
	}
}

// ruleC10ErrorToSuccess: a branch taken because an error occurred never turns it into success: it does not end in a
// return with a nil error, nor skip to the next iteration, outside a frozen table of deliberate tolerances.
func ruleC10ErrorToSuccess(c *Ctx) {
	const rule = "C10.error-to-success"
	c.floor(rule, 4, "`if err != nil` branches in the drive/index path that end in `return nil`, `continue` or `break`")
	// deliberate tolerances (function -> reason); each is a design decision visible in the code's comments
	tolerated := map[string]string{
		"Index":                                             "resynchronisation after a header-parse error / end of data (skips padding and file marks)",
		"Query":                                             "resynchronisation after a header-parse error / end of data",
		"(*STFS).Initialize":                                "falls back to creating a root when no tape is readable (C16 known finding covers the rebuild-error case)",
		"(*STFS).OpenFile":                                  "lookup chain name -> link name -> create",
		"(*STFS).MkdirAll":                                  "missing prefix is created",
		"(*STFS).Mkdir":                                     "existence probes",
		"(*STFS).SymlinkIfPossible":                         "existence probes",
		"(*STFS).Rename":                                    "existence probes",
		"(*STFS).mknodeWithoutLocking":                      "non-numeric uid/gid on foreign platforms default to 0",
		"(*Operations).Initialize":                          "non-numeric uid/gid on foreign platforms default to 0",
		"(*File).enterWriteMode":                            "a missing entry means an empty buffer",
		"(*File).seekWithoutLocking":                        "EOF while skipping forward is the end position",
		"(*File).Read":                                      "EOF is returned with the bytes read",
		"(*MetadataPersister).Open":                         "an index without a root is valid before the first archive",
		"(*MetadataPersister).getSanitizedPath":             "probing for the empty-string root",
		"(*MetadataPersister).GetRootPath":                  "NULL aggregate means no root yet",
		"(*MetadataPersister).GetHeaderDirectChildren":      "no rows is an empty listing; a dangling link row is listed as is",
		"(*MetadataPersister).GetLastIndexedRecordAndBlock": "an empty index starts at (0,0)",
		"(*MetadataPersister).UpsertHeader":                 "no row means insert",
		"indexHeader":                                       "metadata-only update of an already-moved entry",
		"Stat":                                              "retry with a trailing slash",
		"OpenTapeWriteOnly":                                 "a missing drive file will be created",
	}
	scope := map[string]bool{"pkg/operations": true, "pkg/recovery": true, "pkg/persisters": true, "pkg/tape": true, "pkg/fs": true, "pkg/inventory": true, "internal/tarext": true, "pkg/signature": true, "pkg/encryption": true}
	errT := types.Universe.Lookup("error").Type()
	n := 0
	for _, f := range c.Funcs {
		if !scope[f.RelPkg()] {
			continue
		}
		info := f.Pkg.TypesInfo
		root := f
		for root.Outer != nil {
			root = root.Outer
		}
		k := 0
		walkOwn(f.Body(), func(nd ast.Node) {
			is, ok := nd.(*ast.IfStmt)
			if !ok {
				return
			}
			be, ok := ast.Unparen(is.Cond).(*ast.BinaryExpr)
			if !ok || be.Op != token.NEQ || !isNilIdent(info, be.Y) {
				return
			}
			tv, ok := info.Types[be.X]
			if !ok || !types.Identical(tv.Type, errT) {
				return
			}
			n++
			if len(is.Body.List) == 0 {
				return
			}
			last := is.Body.List[len(is.Body.List)-1]
			bad := ""
			switch s := last.(type) {
			case *ast.ReturnStmt:
				if len(s.Results) > 0 && returnsNil(info, s) {
					// only if the function's last result is an error at all
					if sg, ok := info.TypeOf(f.Type()).(*types.Signature); ok && sg.Results().Len() > 0 && types.Identical(sg.Results().At(sg.Results().Len()-1).Type(), errT) {
						bad = "returns a nil error"
					}
				}
			case *ast.BranchStmt:
				if s.Tok == token.CONTINUE || s.Tok == token.BREAK {
					bad = "leaves with `" + s.Tok.String() + "`"
				}
			}
			// (falling through after handling - retry with another lookup, set a flag - is ordinary Go and not judged)
			if bad == "" {
				return
			}
			k++
			construct := fmt.Sprintf("err-branch#%d", k)
			name := strings.Split(root.Name, "$")[0]
			if why, ok := tolerated[name]; ok {
				c.ok(rule, f, construct, is.Pos(), false, "tolerated by design (%s): %s", bad, why)
				return
			}
			c.bad(rule, f, construct, is.Pos(), "the branch taken when %s failed %s: the failure is turned into success / silently skipped, so the caller continues on a half-done operation", exprString(be.X), bad)
		})
	}
	if n < half(100) {
		c.unresolved("only %d error branches found", n)
	}
}

// alwaysReturnsError: every path through the block ends in a return with a non-nil error (nested if/else chains).
func alwaysReturnsError(info *types.Info, b *ast.BlockStmt) bool {
	if b == nil || len(b.List) == 0 {
		return false
	}
	switch s := b.List[len(b.List)-1].(type) {
	case *ast.ReturnStmt:
		return !returnsNil(info, s)
	case *ast.IfStmt:
		if s.Else == nil {
			return false
		}
		elseOK := false
		switch e := s.Else.(type) {
		case *ast.BlockStmt:
			elseOK = alwaysReturnsError(info, e)
		case *ast.IfStmt:
			elseOK = alwaysReturnsError(info, &ast.BlockStmt{List: []ast.Stmt{e}})
		}
		return alwaysReturnsError(info, s.Body) && elseOK
	}
	return false
}

// ================= fourth round =================

func init() {
	extend("C14", ruleC14CursorPreserved, ruleC14FlushUnconditional)
	extend("C18", ruleFailClosedAs("C18.verify-fail-closed"), ruleStateless("C18.stateless-keys", "pkg/keys", "pkg/signature", "pkg/encryption", "pkg/utility"))
}

// ruleC14CursorPreserved: the read cursor of a handle is the byte counter of its streaming reader, so File.Read may
// replace or drop that reader only where it establishes there is none yet.
func ruleC14CursorPreserved(c *Ctx) {
	const rule = "C14.cursor-preserved"
	c.floor(rule, 1, "reader replacements inside File.Read")
	f := c.fn("pkg/fs", "(*File).Read")
	rd := c.field("pkg/fs", "File", "readOpReader")
	if f == nil || rd == nil {
		return
	}
	info := f.Pkg.TypesInfo
	replaces := c.storesFieldTransitively(rd)
	n := 0
	check := func(node ast.Node, what string) {
		n++
		guarded := false
		for _, cl := range enclosingConds(f.Body(), node) {
			// inside `if f.readOpReader == nil || ...` (positive branch)
			mentionsNil := false
			ast.Inspect(cl.e, func(m ast.Node) bool {
				if be, ok := m.(*ast.BinaryExpr); ok && be.Op == token.EQL && selField(info, be.X) == rd && isNilIdent(info, be.Y) {
					mentionsNil = true
				}
				return true
			})
			if mentionsNil && cl.pos {
				guarded = true
			}
		}
		c.verdictIf(guarded, rule, f, fmt.Sprintf("reader replacement#%d", n), node.Pos(), what+" only where no stream is open yet",
			what+" while a stream may be open: the handle's position is that stream's byte counter, so dropping it (e.g. at EOF) resets the cursor to 0 and later reads/relative seeks continue from the start")
	}
	walkOwn(f.Body(), func(nd ast.Node) {
		if as, ok := nd.(*ast.AssignStmt); ok {
			for _, l := range as.Lhs {
				if selField(info, l) == rd {
					check(as, "the streaming reader is assigned")
				}
			}
		}
	})
	for _, cs := range f.calls {
		if cs.Target != nil && replaces[cs.Target] && cs.Target != f {
			check(cs.Call, "call of "+cs.Target.Name+" (which replaces the streaming reader)")
		}
	}
	if n == 0 {
		c.unresolved("File.Read no longer opens the streaming reader")
	}
}

// ruleC14FlushUnconditional: the flush of the write cache depends on nothing but the cache existing.
func ruleC14FlushUnconditional(c *Ctx) {
	const rule = "C14.flush-unconditional"
	c.floor(rule, 1, "the Update call of syncWithoutLocking")
	f := c.fn("pkg/fs", "(*File).syncWithoutLocking")
	update := c.fn("pkg/operations", "(*Operations).Update")
	wb := c.field("pkg/fs", "File", "writeBuf")
	if f == nil || update == nil || wb == nil {
		return
	}
	info := f.Pkg.TypesInfo
	n := 0
	for _, cs := range f.calls {
		if cs.Target != update {
			continue
		}
		n++
		var extra []string
		for _, cl := range enclosingConds(f.Body(), cs.Call) {
			if containsNode(cl.e, cs.Call) {
				continue
			}
			if be, ok := ast.Unparen(cl.e).(*ast.BinaryExpr); ok && be.Op == token.NEQ && selField(info, be.X) == wb && isNilIdent(info, be.Y) && cl.pos {
				continue
			}
			extra = append(extra, exprString(cl.e))
		}
		c.verdictIf(len(extra) == 0, rule, f, fmt.Sprintf("Update#%d", n), cs.Call.Pos(), "whatever is in the write cache is written back whenever a cache exists",
			"the write-back additionally depends on "+strings.Join(extra, ", ")+": modifications that do not establish that condition (e.g. a Truncate-only handle) are discarded on Close")
	}
	if n == 0 {
		c.unresolved("syncWithoutLocking no longer calls Update")
	}
}

// ================= fifth round =================

func init() {
	extend("C10", ruleC10IndexGuarded)
	extend("C11", ruleC11LockHeldThroughout)
	extend("C12", ruleC12RecursiveDeleteSites)
	extend("C02", ruleC12RecursiveDeleteSitesAs("C02.recursive-delete-sites"))
	extend("C15", ruleC15ReadOnlyMonotone)
	extend("C04", ruleC04BlockCountRoundsUp)
}

// ruleC10IndexGuarded: every slice index with a non-loop index in the library's drive/index path is dominated by a
// length test that implies it is in range (an out-of-range index panics and takes the process down).
func ruleC10IndexGuarded(c *Ctx) {
	const rule = "C10.index-guarded"
	c.floor(rule, 6, "slice index expressions with a variable or constant index in the drive/index path")
	scope := map[string]bool{"pkg/operations": true, "pkg/recovery": true, "pkg/persisters": true, "pkg/fs": true, "pkg/signature": true, "pkg/encryption": true, "pkg/keys": true, "pkg/inventory": true, "pkg/tape": true}
	n := 0
	for _, f := range c.Funcs {
		if !scope[f.RelPkg()] {
			continue
		}
		info := f.Pkg.TypesInfo
		// loop variables that range over a slice are in range by construction
		inRange := map[types.Object]types.Object{} // index var -> slice object
		walkOwn(f.Body(), func(nd ast.Node) {
			if rs, ok := nd.(*ast.RangeStmt); ok && rs.Key != nil {
				if k := objOfIdent(info, rs.Key); k != nil {
					inRange[k] = objOfIdent(info, rs.X)
				}
			}
		})
		var fl *Flow
		k := 0
		walkOwn(f.Body(), func(nd ast.Node) {
			ix, ok := nd.(*ast.IndexExpr)
			if !ok {
				return
			}
			tv, ok := info.Types[ix.X]
			if !ok {
				return
			}
			if _, isSlice := tv.Type.Underlying().(*types.Slice); !isSlice {
				return
			}
			base := objOfIdent(info, ix.X)
			idxObj := objOfIdent(info, ix.Index)
			if idxObj != nil && inRange[idxObj] != nil && inRange[idxObj] == base {
				return
			}
			n++
			k++
			construct := fmt.Sprintf("index#%d %s", k, exprString(ix))
			if base == nil {
				c.ok(rule, f, construct, ix.Pos(), false, "index on a non-variable slice expression (not judged)")
				return
			}
			var constIdx int64 = -1
			if itv := info.Types[ix.Index]; itv.Value != nil {
				if v, ok := constantInt(itv.Value.String()); ok {
					constIdx = v
				}
			}
			if idxObj == nil && constIdx < 0 {
				c.ok(rule, f, construct, ix.Pos(), false, "computed index (not judged)")
				return
			}
			if fl == nil {
				fl = c.flow(f)
			}
			// slices the indexed one is a plain copy of (`identities, err = entities, nil`): a length test on the source
			// made before the copy says the same about the copy
			same := map[types.Object]bool{base: true}
			for g := f; g != nil; g = g.Outer {
				walkOwn(g.Body(), func(m ast.Node) {
					if as, ok := m.(*ast.AssignStmt); ok && len(as.Lhs) == len(as.Rhs) {
						for i, l := range as.Lhs {
							if objOfIdent(info, l) == base {
								if ro := objOfIdent(info, as.Rhs[i]); ro != nil {
									same[ro] = true
								}
							}
						}
					}
				})
			}
			isLen := func(e ast.Expr) bool {
				call, ok := ast.Unparen(e).(*ast.CallExpr)
				if !ok || len(call.Args) != 1 {
					return false
				}
				b, ok := calleeObj(info, call).(*types.Builtin)
				return ok && b.Name() == "len" && same[objOfIdent(info, call.Args[0])]
			}
			isIdx := func(e ast.Expr) (bool, int64) {
				if idxObj != nil && objOfIdent(info, e) == idxObj {
					return true, 0
				}
				if etv := info.Types[e]; etv.Value != nil {
					if v, ok := constantInt(etv.Value.String()); ok {
						return constIdx >= 0, v
					}
				}
				return false, 0
			}
			proves := func(ft Fact) bool {
				be, ok := ast.Unparen(ft.E).(*ast.BinaryExpr)
				if !ok {
					return false
				}
				op := be.Op
				l, r := be.X, be.Y
				// normalise to `len(x) OP other`
				if isLen(r) {
					l, r = r, l
					switch op {
					case token.LSS:
						op = token.GTR
					case token.GTR:
						op = token.LSS
					case token.LEQ:
						op = token.GEQ
					case token.GEQ:
						op = token.LEQ
					}
				}
				if !isLen(l) {
					return false
				}
				ok2, cv := isIdx(r)
				if !ok2 {
					return false
				}
				if !ft.Pos {
					switch op { // negate
					case token.LSS:
						op = token.GEQ
					case token.LEQ:
						op = token.GTR
					case token.GTR:
						op = token.LEQ
					case token.GEQ:
						op = token.LSS
					case token.EQL:
						op = token.NEQ
					case token.NEQ:
						op = token.EQL
					default:
						return false
					}
				}
				if idxObj != nil {
					return op == token.GTR // len(x) > i
				}
				// constant index k: need len(x) > k
				switch op {
				case token.GTR:
					return cv >= constIdx
				case token.GEQ:
					return cv >= constIdx+1
				case token.NEQ:
					return cv == 0 && constIdx == 0
				}
				return false
			}
			okk, reach := fl.guardedBy(ix, proves, nil)
			if !reach {
				return
			}
			// a closure indexing a captured slice: the guard may sit in the enclosing function before the closure is built
			for g := f; !okk && g.Lit != nil && g.Outer != nil; g = g.Outer {
				if base.Pos() >= g.Lit.Pos() && base.Pos() < g.Lit.End() {
					break // the slice is the closure's own variable
				}
				ofl := c.flow(g.Outer)
				if o2, r2 := ofl.guardedBy(g.Lit, proves, nil); r2 && o2 {
					okk = true
				}
			}
			c.verdictIf(okk, rule, f, construct, ix.Pos(), "dominated by a length test that puts the index in range",
				exprString(ix)+" is not dominated by a length test that implies the index is in range (e.g. `i > len(s)` instead of `i >= len(s)`): a fault that leaves one record more on the tape than the call wrote makes the next call panic inside the indexer")
		})
	}
	if n < half(6) {
		c.unresolved("only %d slice index expressions found", n)
	}
}

func constantInt(s string) (int64, bool) {
	var v int64
	if len(s) == 0 || len(s) > 18 {
		return 0, false
	}
	for _, ch := range s {
		if ch < '0' || ch > '9' {
			return 0, false
		}
		v = v*10 + int64(ch-'0')
	}
	return v, true
}

// ruleC11LockHeldThroughout: an exported method holds ioLock from its acquisition to its return; it is released
// explicitly only in the frozen check-then-delegate methods.
func ruleC11LockHeldThroughout(c *Ctx) {
	const rule = "C11.lock-held-throughout"
	c.floor(rule, 2, "explicit ioLock releases in pkg/fs (plus one summary obligation)")
	ioS, ioF := c.mutex("fs.STFS"), c.mutex("fs.File")
	if ioS == nil || ioF == nil {
		return
	}
	explicitOK := map[string]string{
		"(*File).ReadAt":       "locks only to read the cached kind, then delegates to Seek/Read which lock themselves",
		"(*File).Readdirnames": "locks only to read the cached kind, then delegates to Readdir which locks itself",
	}
	n := 0
	for _, f := range c.Funcs {
		if f.RelPkg() != "pkg/fs" {
			continue
		}
		info := f.Pkg.TypesInfo
		deferred := map[*ast.CallExpr]bool{}
		walkOwn(f.Body(), func(nd ast.Node) {
			if d, ok := nd.(*ast.DeferStmt); ok {
				deferred[d.Call] = true
			}
		})
		k := 0
		for _, cs := range f.calls {
			mv, op := mutexField(info, cs.Call)
			if mv != ioS && mv != ioF {
				continue
			}
			if op == "Lock" {
				n++
				continue
			}
			if op != "Unlock" || deferred[cs.Call] {
				continue
			}
			k++
			why, ok := explicitOK[f.Name]
			c.verdictIf(ok, rule, f, fmt.Sprintf("explicit Unlock#%d", k), cs.Call.Pos(), "explicit release in a check-then-delegate method: "+why,
				"ioLock is released in the middle of "+f.Name+" (not by defer at return): while it is released another caller can start an operation on the same drive/handle state, which the code below then continues to use")
		}
	}
	c.ok(rule, nil, "acquisitions counted", token.NoPos, false, "%d ioLock acquisitions inspected", n)
	if n < half(20) {
		c.unresolved("only %d ioLock acquisitions found in pkg/fs", n)
	}
}

// ruleC12RecursiveDeleteSites: Operations.Delete removes a whole subtree; the filesystem layer may call it only
// from RemoveAll (recursive by contract) and from the emptiness-checked single removal.
func ruleC12RecursiveDeleteSites(c *Ctx) {
	ruleC12RecursiveDeleteSitesAs("C12.recursive-delete-sites")(c)
}

func ruleC12RecursiveDeleteSitesAs(rule string) func(*Ctx) {
	return func(c *Ctx) {
		c.floor(rule, 2, "call sites of Operations.Delete in pkg/fs")
		del := c.fn("pkg/operations", "(*Operations).Delete")
		if del == nil {
			return
		}
		allowed := map[string]string{
			"(*STFS).RemoveAll":            "recursive by contract",
			"(*STFS).removeWithoutLocking": "checks that a directory is empty first (C02.precondition-before-append)",
		}
		n := 0
		for _, f := range c.Funcs {
			if f.RelPkg() != "pkg/fs" {
				continue
			}
			root := f
			for root.Outer != nil {
				root = root.Outer
			}
			for _, cs := range f.calls {
				if cs.Target != del {
					continue
				}
				n++
				why, ok := allowed[root.Name]
				c.verdictIf(ok, rule, f, fmt.Sprintf("Delete#%d", n), cs.Call.Pos(), "recursive delete called from "+root.Name+": "+why,
					root.Name+" calls the recursive Operations.Delete directly: a non-empty directory (e.g. the existing destination of a Rename) is wiped with everything beneath it instead of being refused")
			}
		}
		if n < 2 {
			c.unresolved("only %d calls of Operations.Delete in pkg/fs", n)
		}
	}
}

// ruleC15ReadOnlyMonotone: whatever NewSTFS stores into readOnly is true whenever the caller asked for read-only
// (checked over all valuations of the other conditions).
func ruleC15ReadOnlyMonotone(c *Ctx) {
	const rule = "C15.readonly-monotone"
	c.floor(rule, 1, "the value stored into STFS.readOnly by the constructor")
	ro := c.field("pkg/fs", "STFS", "readOnly")
	newSTFS := c.fn("pkg/fs", "NewSTFS")
	if ro == nil || newSTFS == nil {
		return
	}
	info := newSTFS.Pkg.TypesInfo
	param := paramVar(newSTFS, "readOnly")
	if param == nil {
		c.unresolved("parameter readOnly of NewSTFS")
		return
	}
	n := 0
	for _, st := range c.storesTo(ro) {
		if st.In != newSTFS || st.Value == nil {
			continue
		}
		n++
		// inline locals one level
		var inline func(e ast.Expr, depth int) ast.Expr
		inline = func(e ast.Expr, depth int) ast.Expr { return e }
		_ = inline
		expr := st.Value
		if o := objOfIdent(info, expr); o != nil && o != types.Object(param) {
			if as, _, _ := defOf(newSTFS, o); as != nil && len(as.Rhs) == 1 {
				expr = &ast.ParenExpr{X: as.Rhs[0]}
				if u, ok := ast.Unparen(st.Value).(*ast.UnaryExpr); ok && u.Op == token.NOT {
					expr = st.Value
				}
			}
		}
		// substitute locals inside the expression by their definitions (depth 2)
		subst := map[string]ast.Expr{}
		ast.Inspect(expr, func(m ast.Node) bool {
			if id, ok := m.(*ast.Ident); ok {
				if o := info.Uses[id]; o != nil && o != types.Object(param) {
					if v, ok := o.(*types.Var); ok && !v.IsField() {
						if as, _, _ := defOf(newSTFS, v); as != nil && len(as.Rhs) == 1 {
							subst[id.Name] = as.Rhs[0]
						}
					}
				}
			}
			return true
		})
		atoms := map[string]bool{}
		var compile func(e ast.Expr, depth int) boolExpr
		compile = func(e ast.Expr, depth int) boolExpr {
			e = ast.Unparen(e)
			if id, ok := e.(*ast.Ident); ok && depth < 3 {
				if r, ok := subst[id.Name]; ok {
					return compile(r, depth+1)
				}
			}
			switch x := e.(type) {
			case *ast.UnaryExpr:
				if x.Op == token.NOT {
					in := compile(x.X, depth)
					return func(v map[string]bool) bool { return !in(v) }
				}
			case *ast.BinaryExpr:
				if x.Op == token.LAND || x.Op == token.LOR {
					a, b := compile(x.X, depth), compile(x.Y, depth)
					if x.Op == token.LAND {
						return func(v map[string]bool) bool { return a(v) && b(v) }
					}
					return func(v map[string]bool) bool { return a(v) || b(v) }
				}
			}
			return compileBool(e, atoms)
		}
		fn := compile(expr, 0)
		var names []string
		for a := range atoms {
			names = append(names, a)
		}
		sort.Strings(names)
		counter := ""
		if len(names) <= 10 {
			for m := 0; m < 1<<len(names); m++ {
				v := map[string]bool{}
				for i, a := range names {
					v[a] = m&(1<<i) != 0
				}
				if !v[param.Name()] {
					continue
				}
				if !fn(v) {
					var parts []string
					for _, a := range names {
						parts = append(parts, fmt.Sprintf("%s=%v", a, v[a]))
					}
					counter = strings.Join(parts, ", ")
					break
				}
			}
		} else {
			counter = "too many conditions to enumerate"
		}
		_, hasParam := atoms[param.Name()]
		c.verdictIf(counter == "" && hasParam, rule, newSTFS, fmt.Sprintf("readOnly value#%d", n), st.Node.Pos(), "the stored flag is true whenever the caller asked for a read-only filesystem",
			"the constructor can store readOnly=false although the caller asked for read-only ("+counter+"): every mutating method is then allowed on that instance")
	}
	if n == 0 {
		c.unresolved("NewSTFS does not store STFS.readOnly")
	}
}

// ruleC04BlockCountRoundsUp: the number of 512-byte blocks up to a byte position is a ceiling (round-up) division.
func ruleC04BlockCountRoundsUp(c *Ctx) { ruleC04BlockCountRoundsUpAs("C04.block-count-rounds-up")(c) }

func ruleC04BlockCountRoundsUpAs(rule string) func(*Ctx) {
	return func(c *Ctx) { blockCountRoundsUp(c, rule) }
}

func blockCountRoundsUp(c *Ctx, rule string) {
	c.floor(rule, 4, "divisions of a byte position by the block size in Index and Query")
	bs := c.constObj("pkg/config", "MagneticTapeBlockSize")
	if bs == nil {
		return
	}
	for _, name := range []string{"Index", "Query"} {
		f := c.fn("pkg/recovery", name)
		if f == nil {
			continue
		}
		info := f.Pkg.TypesInfo
		n := 0
		parents := map[ast.Node]ast.Node{}
		var stack []ast.Node
		ast.Inspect(f.Body(), func(m ast.Node) bool {
			if m == nil {
				stack = stack[:len(stack)-1]
				return true
			}
			if len(stack) > 0 {
				parents[m] = stack[len(stack)-1]
			}
			stack = append(stack, m)
			return true
		})
		walkOwn(f.Body(), func(nd ast.Node) {
			be, ok := nd.(*ast.BinaryExpr)
			if !ok || be.Op != token.QUO {
				return
			}
			if constOf(info, stripConv(info, be.Y)) != bs {
				return
			}
			n++
			// ceiling forms: inside math.Ceil(...), or numerator of the form X + BS - 1
			ceil := false
			for p := parents[be]; p != nil; p = parents[p] {
				if call, ok := p.(*ast.CallExpr); ok && isPkgFunc(calleeObj(info, call), "math", "Ceil") {
					ceil = true
				}
				if _, ok := p.(ast.Stmt); ok {
					break
				}
			}
			num := types.ExprString(stripConv(info, be.X))
			if strings.Contains(num, "MagneticTapeBlockSize") && strings.Contains(num, "- 1") {
				ceil = true
			}
			c.verdictIf(ceil, rule, f, fmt.Sprintf("division#%d", n), be.Pos(), "byte position is rounded up to whole blocks",
				"a byte position is divided by the block size without rounding up ("+exprString(be)+"): when the drive does not end on a block boundary (torn write) the resynchronisation seeks back to the same partial block forever")
		})
		if n < 2 {
			c.unresolved("only %d divisions by the block size in %s", n, name)
		}
	}
}

// ================= sixth round =================

func init() {
	extend("C12", ruleC12PrefixNormalised)
	extend("C16", ruleNoRootOnlyOnQueryError("C16.no-root-only-on-query-error"))
	extend("C17", ruleNoRootOnlyOnQueryError("C17.no-root-only-on-query-error"), ruleC17TrailingSlashRetry)
}

// ruleC12PrefixNormalised: in Move the stored name (index spelling) and the caller's source path (caller spelling)
// are both slash-normalised before one is trimmed off the other.
func ruleC12PrefixNormalised(c *Ctx) {
	const rule = "C12.prefix-normalised"
	c.floor(rule, 1, "the prefix trim in Operations.Move")
	f := c.fn("pkg/operations", "(*Operations).Move")
	if f == nil {
		return
	}
	info := f.Pkg.TypesInfo
	from := paramVar(f, "from")
	n := 0
	walkOwn(f.Body(), func(nd ast.Node) {
		call, ok := nd.(*ast.CallExpr)
		if !ok || !isPkgFunc(calleeObj(info, call), "strings", "TrimPrefix") || len(call.Args) != 2 {
			return
		}
		// the trim of the source path off a stored name
		if !usesObjThrough(f, call.Args[1], from) {
			return
		}
		mentionsName := false
		inspectThrough(f, call.Args[0], func(m ast.Node) bool {
			if se, ok := m.(*ast.SelectorExpr); ok && se.Sel.Name == "Name" {
				mentionsName = true
			}
			return true
		})
		if !mentionsName {
			return
		}
		n++
		norm := func(e ast.Expr) bool {
			if d := localDef(f, e); d != nil {
				e = d // an explaining local
			}
			in, ok := ast.Unparen(e).(*ast.CallExpr)
			if !ok || !isPkgFunc(calleeObj(info, in), "strings", "TrimPrefix") || len(in.Args) != 2 {
				return false
			}
			s, ok := constString(info, in.Args[1])
			return ok && s == "/"
		}
		c.verdictIf(norm(call.Args[0]) && norm(call.Args[1]), rule, f, fmt.Sprintf("prefix trim#%d", n), call.Pos(), "both the stored name and the caller's source path lose their leading slash before the prefix is trimmed",
			"the caller's source path is trimmed off the stored name without both being slash-normalised first: an index rebuilt from the tape stores names relative (\"d/x\") while callers pass \"/d\", so nothing is trimmed and moved entries are written under \"<to>/<old full name>\"")
	})
	if n == 0 {
		c.unresolved("no TrimPrefix(<stored name>, <from>) in Operations.Move")
	}
}

// ruleNoRootOnlyOnQueryError: ErrNoRootDirectory is reported only on the failure branch of the root query - an
// empty root NAME ("" is what ./- and /-relative archives and rebuilt indexes have) is a root.
func ruleNoRootOnlyOnQueryError(rule string) func(*Ctx) {
	return func(c *Ctx) {
		c.floor(rule, 1, "returns of ErrNoRootDirectory in GetRootPath")
		f := c.fn("pkg/persisters", "(*MetadataPersister).GetRootPath")
		noRoot := c.extObjRepo("pkg/config", "ErrNoRootDirectory")
		if f == nil || noRoot == nil {
			return
		}
		info := f.Pkg.TypesInfo
		fl := c.flow(f)
		errT := types.Universe.Lookup("error").Type()
		n := 0
		for i, ret := range returnsIn(f) {
			if len(ret.Results) == 0 {
				continue
			}
			se, ok := ast.Unparen(ret.Results[len(ret.Results)-1]).(*ast.SelectorExpr)
			if !ok || info.Uses[se.Sel] != noRoot {
				continue
			}
			n++
			okk, _ := fl.guardedBy(ret, func(ft Fact) bool {
				be, ok := ast.Unparen(ft.E).(*ast.BinaryExpr)
				if !ok || be.Op != token.NEQ || !ft.Pos || !isNilIdent(info, be.Y) {
					return false
				}
				tv, ok := info.Types[be.X]
				return ok && types.Identical(tv.Type, errT)
			}, nil)
			c.verdictIf(okk, rule, f, fmt.Sprintf("return ErrNoRootDirectory#%d", i+1), ret.Pos(), "'no root' is reported only when the root query failed to produce a row",
				"GetRootPath reports 'no root directory' on a path where the query succeeded (e.g. because the root's name is the empty string): opening a ./- or /-relative archive, or a rebuilt index, then fails or falls back to creating a new root")
		}
		if n == 0 {
			c.unresolved("GetRootPath never returns ErrNoRootDirectory")
		}
	}
}

// ruleC17TrailingSlashRetry: inventory.Stat retries a missing name with a trailing slash (tar writers store
// directories as "d/").
func ruleC17TrailingSlashRetry(c *Ctx) {
	const rule = "C17.trailing-slash-retry"
	c.floor(rule, 2, "the header and link lookups of inventory.Stat")
	f := c.fn("pkg/inventory", "Stat")
	if f == nil {
		return
	}
	info := f.Pkg.TypesInfo
	for _, m := range []string{"GetHeader", "GetHeaderByLinkname"} {
		im := c.ifaceMethod("pkg/config", "MetadataPersister", m)
		plain, slashed := 0, 0
		for _, cs := range f.calls {
			if cs.Callee != types.Object(im) || len(cs.Call.Args) != 2 {
				continue
			}
			// the looked-up name ends in a literal "/" (concatenation or Sprintf, directly or through a local)
			pieces := flattenSQL(f, cs.Call.Args[1], 0)
			if n := len(pieces); n > 0 && pieces[n-1].expr == nil && strings.HasSuffix(pieces[n-1].lit, "/") {
				slashed++
			} else {
				plain++
			}
		}
		_ = info
		c.verdictIf(plain >= 1 && slashed >= 1, rule, f, m+" retry", f.Decl.Pos(), "a missing name is retried with a trailing slash",
			"inventory.Stat no longer retries "+m+" with a trailing slash: directories of archives written by tar(1) are stored as \"d/\", so they can no longer be opened, listed or used as parents")
	}
}

// ruleC10ReaderClosedBeforeReopen: a handle's streaming reader is replaced only after the previous stream was closed
// (its goroutine holds the read operations' lock and the drive until then) or where no stream can be open.
func ruleC10ReaderClosedBeforeReopen(c *Ctx) {
	const rule = "C10.reader-closed-before-reopen"
	c.floor(rule, 2, "sites that (re)open the streaming reader of a file handle")
	rd := c.field("pkg/fs", "File", "readOpReader")
	wr := c.field("pkg/fs", "File", "readOpWriter")
	closer := c.fn("pkg/fs", "(*File).closeWithoutLocking")
	if rd == nil || wr == nil || closer == nil {
		return
	}
	// functions that assign a non-nil reader directly
	opens := map[*FuncInfo]bool{}
	for _, st := range c.storesTo(rd) {
		if st.Value != nil && !isNilIdent(st.In.Pkg.TypesInfo, st.Value) {
			opens[st.In] = true
		}
	}
	justified := func(g *FuncInfo, site ast.Node) bool {
		info := g.Pkg.TypesInfo
		fl := c.flow(g)
		okk, _ := fl.dominatedBy(site, func(m ast.Node) bool {
			for _, call := range callsIn(m) {
				if calleeObj(info, call) == types.Object(closer.Obj) {
					return true
				}
			}
			return false
		}, nil)
		if okk {
			return true
		}
		conds := enclosingConds(g.Body(), site)
		if len(conds) == 0 || !conds[0].pos {
			return false
		}
		// every disjunct of the innermost condition is a nil test of a stream field
		var all func(e ast.Expr) bool
		all = func(e ast.Expr) bool {
			e = ast.Unparen(e)
			be, ok := e.(*ast.BinaryExpr)
			if !ok {
				return false
			}
			if be.Op == token.LOR {
				return all(be.X) && all(be.Y)
			}
			fv := selField(info, be.X)
			return be.Op == token.EQL && (fv == rd || fv == wr) && isNilIdent(info, be.Y)
		}
		return all(conds[0].e)
	}
	n := 0
	seen := map[*FuncInfo]bool{}
	passesOn := map[*FuncInfo]bool{}
	var visit func(g *FuncInfo)
	visit = func(g *FuncInfo) {
		if seen[g] {
			return
		}
		seen[g] = true
		info := g.Pkg.TypesInfo
		var sites []ast.Node
		walkOwn(g.Body(), func(nd ast.Node) {
			if as, ok := nd.(*ast.AssignStmt); ok {
				for i, l := range as.Lhs {
					if selField(info, l) == rd && i < len(as.Rhs) && !isNilIdent(info, as.Rhs[i]) {
						sites = append(sites, as)
					}
				}
			}
		})
		for _, cs := range g.calls {
			// a call is a site only when the callee leaves its own site to its callers (a callee that closes first, or opens
			// only where no stream can be open, has discharged the obligation itself)
			if cs.Target != nil && passesOn[cs.Target] && cs.Target != g {
				sites = append(sites, cs.Call)
			}
		}
		for _, s := range sites {
			if justified(g, s) {
				n++
				c.ok(rule, g, fmt.Sprintf("reopen#%d", n), s.Pos(), true, "the previous stream is closed first, or no stream can be open here")
				continue
			}
			// not justified locally: a helper - its callers inherit the obligation
			callers := 0
			for _, h := range c.Funcs {
				for _, cs := range h.calls {
					if cs.Target == g {
						callers++
					}
				}
			}
			if g.Decl != nil && !g.Decl.Name.IsExported() && callers > 0 {
				opens[g] = true
				passesOn[g] = true
				for _, h := range c.Funcs {
					for _, cs := range h.calls {
						if cs.Target == g {
							seen[h] = false
							visit(h)
						}
					}
				}
				continue
			}
			n++
			c.bad(rule, g, fmt.Sprintf("reopen#%d", n), s.Pos(), "the streaming reader is replaced while a previous stream may still be open and without closing it: its goroutine keeps the read operations' lock and the drive forever, so the next read on the handle - and then every other call - hangs")
		}
	}
	for f := range opens {
		visit(f)
	}
	if n == 0 {
		c.unresolved("no site opens File.readOpReader")
	}
}

func init() {
	extend("C10", ruleC10ReaderClosedBeforeReopen)
	extend("C14", func(c *Ctx) {}) // (position semantics of reopening are covered by C14.no-stale-position / cursor-preserved)
}

// ruleC03SuffixSymmetry: the indexer strips the compression/encryption suffix from a name under a condition that
// implies the writer added it: the writers add it only for regular entries WITH content, so a strip conditioned on
// "regular" alone eats a suffix that belongs to the user's own name (e.g. an empty "/data.gz" under gzip).
var sizeWordRe = regexp.MustCompile(`\b(Size|UncompressedSize)\b`) // not `skipSizeCheck`

func ruleC03SuffixSymmetry(c *Ctx) {
	const rule = "C03.suffix-symmetry"
	c.floor(rule, 1, "RemoveSuffix call sites of the indexer")
	add := c.fn("internal/suffix", "AddSuffix")
	rem := c.fn("internal/suffix", "RemoveSuffix")
	if add == nil || rem == nil {
		return
	}
	kinds := func(f *FuncInfo, call *ast.CallExpr) map[string]bool {
		out := map[string]bool{}
		for _, cl := range enclosingConds(f.Body(), call) {
			if containsNode(cl.e, call) {
				continue
			}
			txt := exprString(cl.e)
			if strings.Contains(txt, "IsRegular") {
				out["regular"] = true
			}
			if sizeWordRe.MatchString(txt) {
				out["has-content"] = true
				// `Size() > 0 || skipSizeCheck`: the suffix is also added for empty content when the caller says so
				ast.Inspect(cl.e, func(m ast.Node) bool {
					if be, ok := m.(*ast.BinaryExpr); ok && be.Op == token.LOR {
						l, r := sizeWordRe.MatchString(exprString(be.X)), sizeWordRe.MatchString(exprString(be.Y))
						if l != r {
							out["content-or-forced"] = true
						}
					}
					return true
				})
			}
			// a condition on a variable obtained from the UncompressedSize record lookup
			ast.Inspect(cl.e, func(m ast.Node) bool {
				if id, ok := m.(*ast.Ident); ok {
					if k := paxKeyOfIdent(f, id); k != nil && strings.Contains(k.Name(), "UncompressedSize") {
						out["has-content"] = true
					}
				}
				return true
			})
		}
		return out
	}
	// what the writers require
	writerNeedsContent, writerNeedsRegular := false, false
	writerAddsWhenForced := false
	nw := 0
	for _, f := range c.Funcs {
		if f.RelPkg() != "pkg/operations" {
			continue
		}
		for _, cs := range f.calls {
			if cs.Target == add {
				nw++
				if kinds(f, cs.Call)["has-content"] {
					writerNeedsContent = true
				}
				if kinds(f, cs.Call)["regular"] {
					writerNeedsRegular = true
				}
				if kinds(f, cs.Call)["content-or-forced"] {
					writerAddsWhenForced = true
				}
			}
		}
	}
	if nw == 0 {
		c.unresolved("no AddSuffix call in pkg/operations")
		return
	}
	n := 0
	for _, f := range c.Funcs {
		if f.RelPkg() != "pkg/recovery" {
			continue
		}
		for _, cs := range f.calls {
			if cs.Target != rem {
				continue
			}
			n++
			k := kinds(f, cs.Call)
			// the converse: a writer that also adds the suffix to EMPTY content when told to (the filesystem layer always
			// tells it to) needs a reader that strips it from such records too
			c.verdictIf(!(writerAddsWhenForced && k["has-content"] && !k["content-or-forced"]), rule, f, fmt.Sprintf("RemoveSuffix#%d covers forced writes", n), cs.Call.Pos(), "the suffix is stripped wherever a writer may have added it",
				"the indexer strips the format suffix only from records that announce content, but Update also adds it to a file that has been emptied through a handle (skipSizeCheck): that record keeps its suffix, matches no row, the entry keeps its old content and the index loses the end of the tape")
			good := !writerNeedsContent || k["has-content"]
			c.verdictIf(good, rule, f, fmt.Sprintf("RemoveSuffix#%d", n), cs.Call.Pos(), "the suffix is stripped only where the writers add it",
				"the writers append the format suffix only to regular entries that carry content, but the indexer strips it from every regular entry: a name that itself ends in the suffix (an empty \"/data.gz\" under gzip, or any such name in a metadata-only/move/delete record) is indexed under a shortened name and can no longer be found")
		}
	}
	// separately: the kind guard. Directories, links and other non-regular entries never get a suffix from the writers
	m := 0
	for _, f := range c.Funcs {
		if f.RelPkg() != "pkg/recovery" {
			continue
		}
		for _, cs := range f.calls {
			if cs.Target != rem {
				continue
			}
			m++
			k := kinds(f, cs.Call)
			c.verdictIf(!writerNeedsRegular || k["regular"], rule, f, fmt.Sprintf("RemoveSuffix#%d regular entries only", m), cs.Call.Pos(), "the suffix is stripped from regular entries only, like the writers add it",
				"the indexer strips the format suffix from entries of every kind while the writers add it to regular files only: a directory or link whose own name ends in the suffix (\"/in.gz\" under gzip) is indexed under a shortened name while its children keep the full prefix, so they lose their parent")
		}
	}
	if n == 0 {
		c.unresolved("the indexer no longer calls RemoveSuffix")
	}
}

func init() {
	extend("C03", ruleC03SuffixSymmetry)
	extend("C02", func(c *Ctx) {})
}

// ruleRecordKeysExplicit: headers are rebuilt from index rows, whose PAX records are whatever the entry's LAST record
// carried. Every STFS key the indexer consults for the action a writer emits must therefore be stored explicitly by
// that writer before each WriteHeader - otherwise a stale value rides along (a chmod after a content write would be
// replayed as a content replacement and the entry would point at a record without content).
func ruleRecordKeysExplicit(rule string) func(*Ctx) {
	return func(c *Ctx) {
		c.floor(rule, 11, "WriteHeader sites of Update, Move, Delete x required STFS record keys")
		need := map[string][]string{
			// archive writes plain CREATE members (a header without STFS records is a create for the indexer)
			"(*Operations).Update": {"STFSRecordVersion", "STFSRecordAction", "STFSRecordReplacesContent"},
			"(*Operations).Move":   {"STFSRecordVersion", "STFSRecordAction", "STFSRecordReplacesName"},
			"(*Operations).Delete": {"STFSRecordVersion", "STFSRecordAction"},
		}
		paxField := c.extField("archive/tar", "Header", "PAXRecords")
		for _, ws := range writeHeaderSites(c) {
			f := ws.f
			root := f
			for root.Outer != nil {
				root = root.Outer
			}
			keys, ok := need[root.Name]
			if !ok || f.RelPkg() != "pkg/operations" {
				continue
			}
			info := f.Pkg.TypesInfo
			if ws.h == nil {
				c.undecided(rule, f, fmt.Sprintf("WriteHeader#%d", ws.ord), ws.cs.Call.Pos(), "WriteHeader argument is not a plain variable")
				continue
			}
			fl := c.flow(f)
			for _, k := range keys {
				ko := c.constObj("internal/records", k)
				if ko == nil {
					continue
				}
				good, reach := fl.dominatedBy(ws.cs.Call, func(n ast.Node) bool {
					if storesRecordKey(info, n, ws.h, ko, paxField) {
						return true
					}
					// or a helper of the package that stores the key into the header it is given, on every path
					for _, call := range callsIn(n) {
						fn, ok := calleeObj(info, call).(*types.Func)
						if !ok || !inRepo(fn) {
							continue
						}
						g := c.byObj[fn]
						if g == nil || g.Body() == nil || g.Pkg != f.Pkg {
							continue
						}
						sig := fn.Type().(*types.Signature)
						for i, a := range call.Args {
							if objOfIdent(info, a) != ws.h || i >= sig.Params().Len() {
								continue
							}
							hp := sig.Params().At(i)
							gfl := c.flow(g)
							all, any := true, false
							for _, r := range returnsIn(g) {
								dom, reach := gfl.dominatedBy(r, func(m ast.Node) bool { return storesRecordKey(g.Pkg.TypesInfo, m, hp, ko, paxField) }, nil)
								if reach {
									any = true
									if !dom {
										all = false
									}
								}
							}
							if len(returnsIn(g)) == 0 {
								// no return statement: the store has to be a top-level statement
								for _, st := range g.Body().List {
									if storesRecordKey(g.Pkg.TypesInfo, st, hp, ko, paxField) {
										any = true
									}
								}
							}
							if any && all {
								return true
							}
						}
					}
					return false
				}, nil)
				if !reach {
					continue
				}
				c.verdictIf(good, rule, f, fmt.Sprintf("WriteHeader#%d %s", ws.ord, strings.TrimPrefix(k, "STFSRecord")), ws.cs.Call.Pos(),
					"the record key is stored explicitly on every path to the write", "the header can be written without "+k+" having been stored explicitly on this path: the value left over from the entry's previous record (kept in the index row) rides along and is replayed by the indexer")
			}
		}
	}
}

// ruleWriteCursorAfterLoad: when a handle enters write mode it loads the existing content into a fresh buffer, which
// leaves the buffer's cursor behind that content. Unless the handle appends, every success exit must have rewound the
// buffer (Seek(0, SeekStart)) after the load - also on the O_TRUNC path, where the file-backed cache would otherwise
// write behind a hole of the old length.
func ruleWriteCursorAfterLoad(rule string) func(*Ctx) {
	return func(c *Ctx) {
		c.floor(rule, 1, "success exits of (*File).enterWriteMode")
		f := c.fn("pkg/fs", "(*File).enterWriteMode")
		appendField := c.field("pkg/fs", "FileFlags", "Append")
		writeBuf := c.field("pkg/fs", "File", "writeBuf")
		s := c.sinks()
		if f == nil || appendField == nil || writeBuf == nil {
			return
		}
		info := f.Pkg.TypesInfo
		fl := c.flow(f)
		const rewoundOrAppending, notTruncated = 1, 2
		isRewind := func(call *ast.CallExpr) bool {
			se, ok := ast.Unparen(call.Fun).(*ast.SelectorExpr)
			if !ok || se.Sel.Name != "Seek" || selField(info, se.X) != writeBuf || len(call.Args) != 2 {
				return false
			}
			// an absolute seek (whence io.SeekStart) puts the cursor where the code says, whatever loading left behind:
			// to the start, or to the position the handle had while reading
			tv1 := info.Types[call.Args[1]]
			return tv1.Value != nil && tv1.Value.String() == "0"
		}
		loads := 0
		an := &Analysis{Must: true, Entry: rewoundOrAppending | notTruncated,
			Node: func(n ast.Node, st State) State {
				for _, call := range callsIn(n) {
					// a fresh buffer, or content streamed into it: the cursor is no longer known to be at the start
					if se, ok := ast.Unparen(call.Fun).(*ast.SelectorExpr); ok {
						if fv := selField(info, se); fv != nil && fv == s.getBufF {
							st &^= rewoundOrAppending
							loads++
						}
						if se.Sel.Name == "Restore" {
							st &^= rewoundOrAppending
						}
						// shrinking the buffer leaves the cursor where it was - possibly beyond the new end
						if se.Sel.Name == "Truncate" && selField(info, se.X) == writeBuf {
							st &^= rewoundOrAppending | notTruncated
						}
					}
					if isRewind(call) {
						st |= rewoundOrAppending | notTruncated
					}
				}
				return st
			},
			Edge: func(b *cfg.Block, i int, st State) State {
				for _, ft := range fl.edgeFacts(b, i) {
					// appending continues behind the loaded content - unless the buffer may have been shrunk since
					if selField(info, ft.E) == appendField && ft.Pos && st&notTruncated != 0 {
						st |= rewoundOrAppending
					}
				}
				return st
			}}
		fl.solve(an)
		if loads == 0 {
			c.unresolved("enterWriteMode no longer obtains its buffer through getFileBuffer")
			return
		}
		k := 0
		fl.exits(an, func(ret *ast.ReturnStmt, ord int, st State) {
			if ret != nil && !returnsNil(info, ret) {
				return
			}
			k++
			pos := f.Decl.End()
			if ret != nil {
				pos = ret.Pos()
			}
			c.verdictIf(st&rewoundOrAppending != 0, rule, f, fmt.Sprintf("success exit#%d", k), pos,
				"after loading (and possibly truncating) the existing content the buffer is rewound, or the handle appends to the untruncated content", "write mode can be entered with the buffer's cursor left behind the loaded content although the handle does not append, or although the buffer was truncated after loading (O_TRUNC, with or without O_APPEND): the next write lands at the old length, leaving a hole of zeros before it")
		})
	}
}

// ruleIndexReadsUnderLock: an operation that appends to the tape decides WHERE the index pass after the write starts
// (GetLastIndexedRecordAndBlock) and WHAT it writes (GetHeader, GetHeaderChildren, ...) from the index. Those reads
// must happen while the operation lock is held: read earlier, another operation can append in between, and the
// post-write index pass then starts at a stale position and pairs this operation's headers with the other's records.
func ruleIndexReadsUnderLock(rule string) func(*Ctx) {
	return func(c *Ctx) {
		c.floor(rule, 8, "index-store and recovery.Index calls in the writing operations")
		mu := c.mutex("operations")
		iface := c.namedType("pkg/config", "MetadataPersister")
		index := c.fn("pkg/recovery", "Index")
		s := c.sinks()
		if mu == nil || iface == nil || index == nil {
			return
		}
		for _, f := range c.Funcs {
			if f.RelPkg() != "pkg/operations" || f.Decl == nil {
				continue
			}
			takesWriter := false
			for _, cs := range f.calls {
				if s.sinkOf(cs) != "" && strings.Contains(s.sinkOf(cs), "GetWriter") {
					takesWriter = true
				}
			}
			if !takesWriter {
				continue
			}
			info := f.Pkg.TypesInfo
			fl := c.flow(f)
			deferred := map[*ast.CallExpr]bool{}
			walkOwn(f.Body(), func(nd ast.Node) {
				if d, ok := nd.(*ast.DeferStmt); ok {
					deferred[d.Call] = true
				}
			})
			const held = 1
			// an unexported helper that is entered with the lock held by every caller (Archive/Initialize -> archive)
			entry := State(0)
			if !f.Decl.Name.IsExported() {
				callers, allHeld := 0, true
				for _, g := range c.Funcs {
					for _, cs := range g.calls {
						if cs.Target != f {
							continue
						}
						callers++
						if !c.lockHeldAt(g, cs.Call, mu) {
							allHeld = false
						}
					}
				}
				if callers > 0 && allHeld {
					entry = held
				}
			}
			an := &Analysis{Must: true, Entry: entry, Node: func(n ast.Node, st State) State {
				if _, ok := n.(*ast.DeferStmt); ok {
					return st
				}
				for _, call := range callsIn(n) {
					if mv, op := mutexField(info, call); mv == mu {
						if op == "Lock" {
							st |= held
						} else if op == "Unlock" && !deferred[call] {
							st &^= held
						}
					}
				}
				return st
			}}
			fl.solve(an)
			k := 0
			check := func(node ast.Node, what string) {
				k++
				st, reach := fl.before(an, node)
				if !reach {
					return
				}
				c.verdictIf(st&held != 0, rule, f, fmt.Sprintf("index read#%d %s", k, what), node.Pos(),
					"the index is consulted while the operation lock is held", "the index is consulted ("+what+") before the operation lock is taken (or after it was released): another operation can append in between, so the position/entries this operation works with are stale and its post-write index pass pairs headers with the wrong records")
			}
			isIndexCall := func(g *FuncInfo, cs *CallSite) (string, bool) {
				if cs.Target == index {
					return "recovery.Index", true
				}
				if fn, ok := cs.Callee.(*types.Func); ok {
					if sig, ok := fn.Type().(*types.Signature); ok && sig.Recv() != nil && types.Identical(sig.Recv().Type(), iface) {
						return fn.Name(), true
					}
				}
				return "", false
			}
			for _, cs := range f.calls {
				if what, ok := isIndexCall(f, cs); ok {
					check(cs.Call, what)
				}
			}
			// closures defined in the operation that consult the index: the definition must lie in the locked region
			for _, l := range c.litsIn(f) {
				uses := false
				for _, cs := range l.calls {
					if _, ok := isIndexCall(l, cs); ok {
						uses = true
					}
				}
				if uses && l.Outer == f {
					isDeferred := false
					walkOwn(f.Body(), func(nd ast.Node) {
						if d, ok := nd.(*ast.DeferStmt); ok && d.Call.Fun == ast.Expr(l.Lit) {
							isDeferred = true
						}
					})
					if !isDeferred {
						check(l.Lit, "closure "+l.Name)
					}
				}
			}
		}
	}
}

// lockHeldAt: mutex mu has been locked in g (and not explicitly released) on every path to node.
func (c *Ctx) lockHeldAt(g *FuncInfo, node ast.Node, mu *types.Var) bool {
	if g.Body() == nil {
		return false
	}
	info := g.Pkg.TypesInfo
	fl := c.flow(g)
	deferred := map[*ast.CallExpr]bool{}
	walkOwn(g.Body(), func(nd ast.Node) {
		if d, ok := nd.(*ast.DeferStmt); ok {
			deferred[d.Call] = true
		}
	})
	an := &Analysis{Must: true, Entry: 0, Node: func(n ast.Node, st State) State {
		if _, ok := n.(*ast.DeferStmt); ok {
			return st
		}
		for _, call := range callsIn(n) {
			if mv, op := mutexField(info, call); mv == mu {
				if op == "Lock" {
					st |= 1
				} else if op == "Unlock" && !deferred[call] {
					st &^= 1
				}
			}
		}
		return st
	}}
	fl.solve(an)
	st, reach := fl.before(an, node)
	return reach && st&1 != 0
}

// ruleMoveOneRow: one UPDATE record describes one entry; the tape carries a separate record for every descendant of a
// moved directory, and each is replayed on its own. MoveHeader's statement must therefore address exactly the row of
// the old name (`where name = ?`): a statement that also renames descendants makes their own records find nothing,
// so nobody records where those records are and the last-indexed position falls behind the end of the tape.
func ruleMoveOneRow(rule string) func(*Ctx) {
	return func(c *Ctx) {
		c.floor(rule, 1, "raw UPDATE statements of MoveHeader")
		f := c.fn("pkg/persisters", "(*MetadataPersister).MoveHeader")
		if f == nil {
			return
		}
		info := f.Pkg.TypesInfo
		n := 0
		for _, cs := range f.calls {
			fn, ok := cs.Callee.(*types.Func)
			if !ok || fn.Name() != "Raw" || fn.Pkg() == nil || fn.Pkg().Path() != queriesPath || len(cs.Call.Args) == 0 {
				continue
			}
			pieces := flattenSQL(f, cs.Call.Args[0], 0)
			var sb strings.Builder
			for _, p := range pieces {
				if p.expr != nil {
					if se, ok := ast.Unparen(p.expr).(*ast.SelectorExpr); ok {
						sb.WriteString("<" + strings.ToLower(se.Sel.Name) + ">")
					} else {
						sb.WriteString("<?>")
					}
				} else {
					sb.WriteString(strings.ToLower(p.lit))
				}
			}
			_ = info
			text := strings.Join(strings.Fields(sb.String()), " ")
			if !strings.HasPrefix(text, "update") {
				continue
			}
			n++
			i := strings.Index(text, " where ")
			where := ""
			if i >= 0 {
				where = strings.TrimSuffix(strings.TrimSpace(text[i+len(" where "):]), ";")
			}
			// a conjunction one of whose conjuncts is the equality on the name column (further conjuncts only narrow it)
			good := !strings.Contains(" "+where+" ", " or ")
			hasEq := false
			for _, cj := range strings.Split(where, " and ") {
				if strings.TrimSpace(cj) == "<name> = ?" {
					hasEq = true
				}
			}
			good = good && hasEq
			c.verdictIf(good, rule, f, fmt.Sprintf("update#%d where", n), cs.Call.Pos(), "the rename addresses exactly the row of the old name", "the rename's where clause is `"+where+"`, not `name = ?`: rows other than the moved entry's are rewritten by one record, and the records written for them are then replayed against names that no longer exist")
		}
		if n == 0 {
			c.unresolved("no raw UPDATE statement found in MoveHeader")
		}
	}
}

// ruleSentinelProduced: a package-level error value of the repository that some branch compares an error against
// (==, !=, errors.Is, switch case) must be produced somewhere in the repository (returned, wrapped, stored, passed
// on). A sentinel that is only ever compared against - e.g. a local errors.New copy of another package's message -
// can never match, so the branch it guards (skipping sockets while archiving) is dead and the error path is taken.
func ruleSentinelProduced(rule string) func(*Ctx) {
	return func(c *Ctx) {
		c.floor(rule, 1, "repository error sentinels that are compared against (today: config.ErrNoRootDirectory)")
		type use struct{ compared, produced int }
		uses := map[*types.Var]*use{}
		var order []*types.Var
		isErrVar := func(o types.Object) *types.Var {
			v, ok := o.(*types.Var)
			if !ok || v.IsField() || v.Pkg() == nil || !strings.HasPrefix(v.Pkg().Path(), modPath) || v.Parent() != v.Pkg().Scope() {
				return nil
			}
			if v.Type().String() != "error" {
				return nil
			}
			return v
		}
		for _, pkg := range c.Pkgs {
			info := pkg.TypesInfo
			for _, file := range pkg.Syntax {
				// parents of identifiers
				var stack []ast.Node
				ast.Inspect(file, func(n ast.Node) bool {
					if n == nil {
						stack = stack[:len(stack)-1]
						return true
					}
					stack = append(stack, n)
					var id *ast.Ident
					var whole ast.Expr
					switch x := n.(type) {
					case *ast.Ident:
						id, whole = x, x
					default:
						return true
					}
					v := isErrVar(info.Uses[id])
					if v == nil {
						return true
					}
					// qualified use pkg.ErrX: the selector is the whole expression
					pi := len(stack) - 2
					if pi >= 0 {
						if se, ok := stack[pi].(*ast.SelectorExpr); ok && se.Sel == id {
							whole = se
							pi--
						}
					}
					u := uses[v]
					if u == nil {
						u = &use{}
						uses[v] = u
						order = append(order, v)
					}
					if pi < 0 {
						return true
					}
					switch p := stack[pi].(type) {
					case *ast.BinaryExpr:
						if p.Op == token.EQL || p.Op == token.NEQ {
							u.compared++
							return true
						}
					case *ast.CaseClause:
						for _, e := range p.List {
							if e == whole {
								u.compared++
								return true
							}
						}
					case *ast.CallExpr:
						if fn := calleeObj(info, p); isPkgFunc(fn, "errors", "Is") && len(p.Args) == 2 && p.Args[1] == whole {
							u.compared++
							return true
						}
					case *ast.SelectorExpr:
						// S.Error(): a textual use, neither a comparison nor a production
						if p.X == whole {
							return true
						}
					case *ast.ValueSpec:
						return true // its own declaration
					}
					u.produced++
					return true
				})
			}
		}
		sort.Slice(order, func(i, j int) bool {
			return order[i].Pkg().Path()+order[i].Name() < order[j].Pkg().Path()+order[j].Name()
		})
		for _, v := range order {
			u := uses[v]
			if u.compared == 0 {
				continue
			}
			rel := strings.TrimPrefix(strings.TrimPrefix(v.Pkg().Path(), modPath), "/")
			c.add(rule, nil, rel+"."+v.Name(), v.Pos(), map[bool]Verdict{true: Discharged, false: Violated}[u.produced > 0], true,
				map[bool]string{true: "compared against %d times and produced %d times in the repository", false: "compared against %d times but produced %d times: no code of the repository ever returns, wraps or stores this value, so every branch testing for it is dead (a local copy of another package's error message never matches by identity)"}[u.produced > 0], u.compared, u.produced)
		}
	}
}

// rulePaddingIsFreshZeros: besides what archive/tar emits, the only bytes the tape writer puts on the drive itself are
// the record padding. They must be freshly allocated zeros (`make([]byte, n)` at the call): a recycled or shared
// buffer still holds whatever passed through it before - on the tape-drive path that is plaintext file content.
func rulePaddingIsFreshZeros(rule string) func(*Ctx) {
	return func(c *Ctx) {
		c.floor(rule, 1, "raw writes in internal/tarext")
		n := 0
		for _, f := range c.Funcs {
			if f.RelPkg() != "internal/tarext" {
				continue
			}
			info := f.Pkg.TypesInfo
			for _, cs := range f.calls {
				fn, ok := cs.Callee.(*types.Func)
				if !ok || (fn.Name() != "Write" && fn.Name() != "WriteString" && fn.Name() != "ReadFrom") || len(cs.Call.Args) != 1 {
					continue
				}
				se, ok := ast.Unparen(cs.Call.Fun).(*ast.SelectorExpr)
				if !ok {
					continue
				}
				// writes on the tar writer itself are member content, not raw drive bytes
				if tv, ok := info.Types[se.X]; ok && strings.Contains(tv.Type.String(), "archive/tar.Writer") {
					continue
				}
				n++
				arg := ast.Unparen(cs.Call.Args[0])
				fresh := false
				isMake := func(e ast.Expr) bool {
					mk, ok := ast.Unparen(e).(*ast.CallExpr)
					if !ok {
						return false
					}
					b, ok := calleeObj(info, mk).(*types.Builtin)
					return ok && b.Name() == "make"
				}
				if isMake(arg) {
					fresh = true
				} else if o := objOfIdent(info, arg); o != nil {
					// a local defined exactly once by make and used nowhere else
					if st, dcall, _ := defOf(f, o); st != nil && dcall != nil && isMake(dcall) {
						uses := 0
						ast.Inspect(f.Body(), func(m ast.Node) bool {
							if id, ok := m.(*ast.Ident); ok && info.Uses[id] == o {
								uses++
							}
							return true
						})
						fresh = uses == 1
					}
				}
				c.verdictIf(fresh, rule, f, fmt.Sprintf("raw write#%d", n), cs.Call.Pos(), "the padding is a freshly allocated zero slice", "bytes other than a fresh `make([]byte, n)` are written to the drive next to the archive ("+exprString(arg)+"): a reused buffer carries earlier content - plaintext - into the record padding")
			}
		}
		if n == 0 {
			c.unresolved("no raw write found in internal/tarext (the padding write moved?)")
		}
	}
}

// ruleRestoreOnlyThroughFetch: Operations.Restore hands the caller's destination callbacks (getDst, mkdirAll) to
// recovery.Fetch and to nothing else, and never calls them itself: Fetch is the only step that decrypts and verifies
// a record, so anything materialised without it (e.g. directories recreated from the index alone) is restored
// without proof that the caller holds the key or that the record is authentic.
func ruleRestoreOnlyThroughFetch(rule string) func(*Ctx) {
	return func(c *Ctx) {
		c.floor(rule, 2, "uses of Restore's destination callbacks")
		f := c.fn("pkg/operations", "(*Operations).Restore")
		fetch := c.fn("pkg/recovery", "Fetch")
		if f == nil || fetch == nil {
			return
		}
		info := f.Pkg.TypesInfo
		var cbs []*types.Var
		for _, pv := range paramsWhere(f, func(v *types.Var) bool {
			_, ok := v.Type().Underlying().(*types.Signature)
			return ok
		}) {
			cbs = append(cbs, pv)
		}
		if len(cbs) < 2 {
			c.unresolved("Restore has %d callback parameters (expected getDst and mkdirAll)", len(cbs))
			return
		}
		fetchArgs := map[ast.Expr]bool{}
		var fetchLits []*ast.FuncLit
		scan := func(g *FuncInfo) {
			for _, cs := range g.calls {
				if cs.Target == fetch {
					for _, a := range cs.Call.Args {
						fetchArgs[ast.Unparen(a)] = true
						if lit, ok := ast.Unparen(a).(*ast.FuncLit); ok {
							fetchLits = append(fetchLits, lit) // an adapter closure handed to Fetch
						}
					}
				}
			}
		}
		scan(f)
		for _, l := range c.litsIn(f) {
			scan(l)
		}
		n := 0
		ast.Inspect(f.Body(), func(nd ast.Node) bool {
			id, ok := nd.(*ast.Ident)
			if !ok {
				return true
			}
			for _, pv := range cbs {
				if info.Uses[id] == types.Object(pv) {
					n++
					inAdapter := false
					for _, lit := range fetchLits {
						if id.Pos() >= lit.Pos() && id.End() <= lit.End() {
							inAdapter = true
						}
					}
					c.verdictIf(fetchArgs[id] || inAdapter, rule, f, fmt.Sprintf("%s use#%d", pv.Name(), n), id.Pos(), "the callback is handed to recovery.Fetch", "Restore uses its "+pv.Name()+" callback outside recovery.Fetch: the entry is materialised without the record having been decrypted and verified, so a restore with a wrong key (or of a forged record) succeeds for it")
				}
			}
			return true
		})
		if n < 2 {
			c.unresolved("only %d uses of the destination callbacks in Restore", n)
		}
	}
}

// ruleRowLevelWrites: one tape record changes one index row. In the index store the only set-level statements are
// the whole-table purge of an overwrite and MoveHeader's raw primary-key rewrite (held to `where name = ?` by
// move-one-row); every other change goes through the fetched row (`row.Update/Insert/Delete`). A query-level
// UpdateAll/DeleteAll in a replayed mutator touches rows that have records of their own (e.g. the symlink row that
// shares a directory's name), whose replay then finds nothing and aborts the pass.
func ruleRowLevelWrites(rule string) func(*Ctx) {
	return func(c *Ctx) {
		c.floor(rule, 1, "set-level write calls in pkg/persisters")
		allowed := map[string]string{
			"(*MetadataPersister).PurgeAllHeaders": "explicit overwrite: the whole table is emptied before a full rebuild",
		}
		n := 0
		for _, f := range c.Funcs {
			if f.RelPkg() != "pkg/persisters" {
				continue
			}
			root := f
			for root.Outer != nil {
				root = root.Outer
			}
			for _, cs := range f.calls {
				fn, ok := cs.Callee.(*types.Func)
				if !ok || fn.Pkg() == nil || fn.Pkg().Path() != modelsPath || (fn.Name() != "UpdateAll" && fn.Name() != "DeleteAll") {
					continue
				}
				n++
				why, ok := allowed[root.Name]
				c.verdictIf(ok, rule, f, fmt.Sprintf("%s#%d", fn.Name(), n), cs.Call.Pos(), "whitelisted set-level write: "+why,
					root.Name+" changes rows with the set-level "+fn.Name()+": every row matching the query is rewritten by one record, although each of those rows has records of its own on the tape")
			}
		}
		if n == 0 {
			c.unresolved("no set-level write found in pkg/persisters (PurgeAllHeaders is expected to use one)")
		}
	}
}

// ruleCreateResetsAllColumns: a CREATE record is the complete new state of its row: replaying it must overwrite every
// column of an existing row, in particular the tombstone flag (the primary key of a removed entry stays in the
// table). The row writes reachable from UpsertHeader therefore use the full column set (`boil.Infer()`); a
// Blacklist/Whitelist would let an earlier state (deleted = 1) survive a re-creation.
func ruleCreateResetsAllColumns(rule string) func(*Ctx) {
	return func(c *Ctx) {
		ruleRowWriteColumns(c, rule, "(*MetadataPersister).UpsertHeader", true, 2)
		// ... while an UPDATE record must not bring a removed entry back: the row write of UpdateHeaderMetadata
		// leaves the tombstone flag alone (closing a write handle after the file was removed would otherwise revive
		// the file beneath a parent that no longer exists)
		ruleRowWriteColumns(c, rule, "(*MetadataPersister).UpdateHeaderMetadata", false, 1)
	}
}

func ruleRowWriteColumns(c *Ctx, rule string, entry string, wantFull bool, floor int) {
	{
		c.floor(rule, 3, "row writes reachable from UpsertHeader and UpdateHeaderMetadata")
		f := c.fn("pkg/persisters", entry)
		if f == nil {
			return
		}
		set := []*FuncInfo{f}
		seen := map[*FuncInfo]bool{f: true}
		for i := 0; i < len(set) && i < 6; i++ {
			for _, cs := range set[i].calls {
				if g := cs.Target; g != nil && g.Pkg == f.Pkg && !seen[g] && g.Body() != nil && g.Name != "(*MetadataPersister).getSanitizedPath" {
					seen[g] = true
					set = append(set, g)
				}
			}
		}
		n := 0
		for _, g := range set {
			info := g.Pkg.TypesInfo
			for _, cs := range g.calls {
				if !isMethod(cs.Callee, modelsPath, "Header", "Update") && !isMethod(cs.Callee, modelsPath, "Header", "Insert") && !isMethod(cs.Callee, modelsPath, "Header", "Upsert") {
					continue
				}
				n++
				full := false
				if len(cs.Call.Args) >= 3 {
					if call, ok := ast.Unparen(cs.Call.Args[len(cs.Call.Args)-1]).(*ast.CallExpr); ok {
						if fn, ok := calleeObj(info, call).(*types.Func); ok && fn.Name() == "Infer" && strings.HasSuffix(fn.Pkg().Path(), "/boil") {
							full = true
						}
					}
				}
				short := strings.TrimPrefix(entry, "(*MetadataPersister).")
				if wantFull {
					c.verdictIf(full, rule, g, fmt.Sprintf("%s %s#%d columns", short, cs.Callee.Name(), n), cs.Call.Pos(), "the row is written with the full column set", "a row write reachable from UpsertHeader does not use the full column set ("+exprString(cs.Call.Args[len(cs.Call.Args)-1])+"): columns left out keep their earlier value, so re-creating a removed name leaves its row deleted (or with stale fields) while the call succeeds")
					continue
				}
				// the column set must exclude the tombstone flag: boil.Blacklist(..., <Deleted column>, ...)
				keeps := false
				if len(cs.Call.Args) >= 3 {
					if call, ok := ast.Unparen(cs.Call.Args[len(cs.Call.Args)-1]).(*ast.CallExpr); ok {
						if fn, ok := calleeObj(info, call).(*types.Func); ok && fn.Name() == "Blacklist" && strings.HasSuffix(fn.Pkg().Path(), "/boil") {
							var others []string
							for _, a := range call.Args {
								isDeleted := false
								if se, ok := ast.Unparen(a).(*ast.SelectorExpr); ok && se.Sel.Name == "Deleted" {
									isDeleted = true
								}
								if sv, ok := constString(info, a); ok && sv == "deleted" {
									isDeleted = true
								}
								if isDeleted {
									keeps = true
								} else {
									others = append(others, exprString(a))
								}
							}
							// every other column is the record's to update (its PAX records carry the uncompressed size, ...)
							if len(others) > 0 {
								c.bad(rule, g, fmt.Sprintf("%s %s#%d frozen columns", short, cs.Callee.Name(), n), cs.Call.Pos(), "the row write of UpdateHeaderMetadata leaves out %s besides the tombstone flag: an update record can no longer change them, so e.g. the size carried in the record's PAX records stays what it was when the (empty) file was created, and a chmod record is indexed with size 0", strings.Join(others, ", "))
							}
						}
					}
				}
				c.verdictIf(keeps, rule, g, fmt.Sprintf("%s %s#%d columns", short, cs.Callee.Name(), n), cs.Call.Pos(), "the update leaves the tombstone flag alone", "the row write of UpdateHeaderMetadata also writes the `deleted` column ("+exprString(cs.Call.Args[len(cs.Call.Args)-1])+"): an UPDATE record for a removed entry (a write handle closed after its file was removed) clears the tombstone, so the file reappears - possibly beneath a directory that no longer exists")
			}
		}
		if n < floor {
			c.unresolved("only %d row writes reachable from %s", n, entry)
		}
	}
}

// ruleCachedSizeReadModeOnly: the FileInfo cached in a handle holds the size the entry had when the handle was opened
// (refreshed only by Stat/Sync). Once the handle is in write mode the buffer is the truth, so a decision in a
// read/seek path may consult the cached size only where the handle is known not to be in write mode
// (`writeBuf == nil`): otherwise growing the file through the handle and then reading near its new end is answered
// from the stale size.
func ruleCachedSizeReadModeOnly(rule string) func(*Ctx) {
	return func(c *Ctx) {
		c.floor(rule, 1, "reads of the cached size in (*File) methods")
		infoField := c.field("pkg/fs", "File", "info")
		writeBuf := c.field("pkg/fs", "File", "writeBuf")
		if infoField == nil || writeBuf == nil {
			return
		}
		n := 0
		for _, f := range c.Funcs {
			if f.RelPkg() != "pkg/fs" || f.Body() == nil {
				continue
			}
			root := f
			for root.Outer != nil {
				root = root.Outer
			}
			if !strings.HasPrefix(root.Name, "(*File).") {
				continue
			}
			info := f.Pkg.TypesInfo
			fl := c.flow(f)
			for _, cs := range f.calls {
				se, ok := ast.Unparen(cs.Call.Fun).(*ast.SelectorExpr)
				if !ok || se.Sel.Name != "Size" || selField(info, se.X) != infoField {
					continue
				}
				n++
				readMode, reach := fl.guardedBy(cs.Call, func(ft Fact) bool {
					be, ok := ast.Unparen(ft.E).(*ast.BinaryExpr)
					if !ok {
						return false
					}
					var x ast.Expr
					if isNilIdent(info, be.Y) {
						x = be.X
					} else if isNilIdent(info, be.X) {
						x = be.Y
					}
					if x == nil || selField(info, x) != writeBuf {
						return false
					}
					return be.Op == token.EQL && ft.Pos || be.Op == token.NEQ && !ft.Pos
				}, nil)
				if !reach {
					continue
				}
				c.verdictIf(readMode, rule, f, fmt.Sprintf("cached size#%d", n), cs.Call.Pos(), "the cached size is consulted only where the handle is not in write mode",
					"the size cached at open time is consulted on a path where the handle may be in write mode: after growing (or shrinking) the file through this handle the answer is stale - a read at an offset inside the new content reports end of file")
			}
		}
		if n < 1 {
			c.unresolved("only %d reads of the cached size found in (*File) methods", n)
		}
	}
}

// rulePasswordVerbatim: key generation and key parsing must hand the very same password bytes to the key library -
// a key is only usable if the password that wrapped it is the one that unwraps it. Decided structurally: in
// pkg/keys and pkg/utility a `password string` parameter is never reassigned, and it is consumed only by (a) a
// comparison, (b) a key-library call (frozen package list) that receives it directly or as `[]byte(password)`,
// (c) another function of those packages held to the same rule. A transformation on one side only (trimming,
// normalising, hashing) silently makes freshly generated keys unusable for some passwords.
func rulePasswordVerbatim(rule string) func(*Ctx) {
	return func(c *Ctx) {
		c.floor(rule, 8, "uses of password parameters in pkg/keys and pkg/utility")
		keyLibs := []string{"filippo.io/age", "aead.dev/minisign", "github.com/ProtonMail/go-crypto/openpgp", "github.com/ProtonMail/gopenpgp/v2"}
		inScope := func(f *FuncInfo) *types.Var {
			if f.RelPkg() != "pkg/keys" && f.RelPkg() != "pkg/utility" {
				return nil
			}
			for _, pv := range paramsWhere(f, func(v *types.Var) bool {
				b, ok := v.Type().Underlying().(*types.Basic)
				return ok && b.Kind() == types.String && v.Name() == "password"
			}) {
				return pv
			}
			return nil
		}
		n := 0
		for _, f := range c.Funcs {
			pv := inScope(f)
			if pv == nil || f.Body() == nil {
				continue
			}
			info := f.Pkg.TypesInfo
			// parent map
			parent := map[ast.Node]ast.Node{}
			var stack []ast.Node
			ast.Inspect(f.Body(), func(nd ast.Node) bool {
				if nd == nil {
					stack = stack[:len(stack)-1]
					return true
				}
				if len(stack) > 0 {
					parent[nd] = stack[len(stack)-1]
				}
				stack = append(stack, nd)
				return true
			})
			// locals that merely hold the password (`pw := password`) are the password
			alias := map[types.Object]bool{pv: true}
			for changed := true; changed; {
				changed = false
				walkOwn(f.Body(), func(nd ast.Node) {
					as, ok := nd.(*ast.AssignStmt)
					if !ok || as.Tok != token.DEFINE || len(as.Lhs) != len(as.Rhs) {
						return
					}
					for i, r := range as.Rhs {
						if o := objOfIdent(info, r); o != nil && alias[o] {
							if l := objOfIdent(info, as.Lhs[i]); l != nil && !alias[l] {
								if _, dcall, _ := defOf(f, l); dcall == nil {
									alias[l] = true
									changed = true
								}
							}
						}
					}
				})
			}
			k := 0
			ast.Inspect(f.Body(), func(nd ast.Node) bool {
				id, ok := nd.(*ast.Ident)
				if !ok || !alias[info.Uses[id]] {
					return true
				}
				// the defining `pw := password` itself
				if as, ok := parent[id].(*ast.AssignStmt); ok && as.Tok == token.DEFINE {
					isRhs := false
					for i, r := range as.Rhs {
						if r == ast.Expr(id) && i < len(as.Lhs) && alias[objOfIdent(info, as.Lhs[i])] {
							isRhs = true
						}
					}
					if isRhs {
						return true
					}
				}
				n++
				k++
				construct := fmt.Sprintf("password use#%d", k)
				var e ast.Node = id
				p := parent[e]
				for {
					if pe, ok := p.(*ast.ParenExpr); ok {
						e, p = pe, parent[pe]
						continue
					}
					break
				}
				// []byte(password)
				if call, ok := p.(*ast.CallExpr); ok && len(call.Args) == 1 && call.Args[0] == e {
					if tv, ok := info.Types[call.Fun]; ok && tv.IsType() && tv.Type.String() == "[]byte" {
						e, p = call, parent[call]
					}
				}
				switch x := p.(type) {
				case *ast.BinaryExpr:
					if x.Op == token.EQL || x.Op == token.NEQ {
						c.ok(rule, f, construct, id.Pos(), false, "compared (empty-password guard)")
						return true
					}
				case *ast.AssignStmt:
					for _, l := range x.Lhs {
						if l == e {
							c.bad(rule, f, construct, id.Pos(), "%s reassigns its password parameter: the bytes handed to the key library differ from what the caller supplied, and the other side (generation vs. parsing) does not apply the same change", f.Name)
							return true
						}
					}
				case *ast.CallExpr:
					isArg := false
					for _, a := range x.Args {
						if a == e {
							isArg = true
						}
					}
					if isArg {
						if fn, ok := calleeObj(info, x).(*types.Func); ok && fn.Pkg() != nil {
							if inRepo(fn) {
								if g := c.byObj[fn]; g != nil && inScope(g) != nil {
									c.ok(rule, f, construct, id.Pos(), true, "passed on to "+fn.Name()+", which is held to the same rule")
									return true
								}
							} else {
								for _, lib := range keyLibs {
									if strings.HasPrefix(fn.Pkg().Path(), lib) {
										c.ok(rule, f, construct, id.Pos(), true, "handed verbatim to "+fn.Pkg().Name()+"."+fn.Name())
										return true
									}
								}
							}
							c.bad(rule, f, construct, id.Pos(), "the password is passed to %s.%s, which is neither a key-library call nor a password-handling function of pkg/keys or pkg/utility: a transformation applied on one side only makes keys generated with some passwords impossible to parse with the same password", fn.Pkg().Name(), fn.Name())
							return true
						}
					}
				}
				c.bad(rule, f, construct, id.Pos(), "the password is used at %s in a way that is not a comparison, a key-library call or a pass-through", c.pos(p.Pos()))
				return true
			})
		}
		if n < half(8) {
			c.unresolved("only %d uses of password parameters found", n)
		}
	}
}

// ruleStreamWrapperContract: io.Reader allows a final chunk to arrive together with io.EOF ("process the n > 0 bytes
// returned before considering the error"); archive/tar, lz4 and zstd readers do exactly that. A repository wrapper
// that accounts for the bytes passing through it (counts them, hashes them) must therefore do so before it looks at
// the error: on every return after the inner Read/Write the accounting statement has run.
func ruleStreamWrapperContract(rule string) func(*Ctx) {
	return func(c *Ctx) {
		c.floor(rule, 4, "Read/Write wrapper methods with byte accounting")
		n := 0
		for _, f := range c.Funcs {
			if f.Decl == nil || f.Decl.Recv == nil || (f.Decl.Name.Name != "Read" && f.Decl.Name.Name != "Write") || !inRepoPkg(f) {
				continue
			}
			sig := f.Obj.Type().(*types.Signature)
			if sig.Params().Len() != 1 || sig.Results().Len() != 2 {
				continue
			}
			info := f.Pkg.TypesInfo
			// the delegating assignment `n, err = inner.Read(p)`
			var inner *ast.AssignStmt
			var nObj types.Object
			walkOwn(f.Body(), func(nd ast.Node) {
				as, ok := nd.(*ast.AssignStmt)
				if !ok || len(as.Lhs) != 2 || len(as.Rhs) != 1 || inner != nil {
					return
				}
				call, ok := ast.Unparen(as.Rhs[0]).(*ast.CallExpr)
				if !ok {
					return
				}
				if se, ok := ast.Unparen(call.Fun).(*ast.SelectorExpr); ok && se.Sel.Name == f.Decl.Name.Name {
					inner = as
					nObj = objOfIdent(info, as.Lhs[0])
				}
			})
			if inner == nil || nObj == nil {
				continue
			}
			isAccounting := func(nd ast.Node) bool {
				switch x := nd.(type) {
				case *ast.AssignStmt:
					if x == inner {
						return false
					}
					for _, r := range x.Rhs {
						if usesObj(info, r, nObj) {
							return true
						}
					}
				case *ast.IncDecStmt:
					return false
				case *ast.ExprStmt:
					return usesObj(info, x.X, nObj)
				}
				return false
			}
			has := false
			walkOwn(f.Body(), func(nd ast.Node) {
				if isAccounting(nd) {
					has = true
				}
			})
			if !has {
				continue
			}
			n++
			fl := c.flow(f)
			const delegated, accounted = 1, 2
			an := &Analysis{Must: true, Entry: 0, Node: func(nd ast.Node, st State) State {
				if nd == ast.Node(inner) {
					return (st | delegated) &^ accounted
				}
				if isAccounting(nd) {
					st |= accounted
				}
				return st
			}}
			fl.solve(an)
			good := true
			var where token.Pos
			fl.exits(an, func(ret *ast.ReturnStmt, ord int, st State) {
				if st&delegated != 0 && st&accounted == 0 {
					good = false
					if ret != nil {
						where = ret.Pos()
					}
				}
			})
			if where == token.NoPos {
				where = f.Decl.Pos()
			}
			c.verdictIf(good, rule, f, "accounts before returning", where, "the bytes are accounted for before any return, whatever the error",
				"the wrapper can return after the inner "+f.Decl.Name.Name+" without having accounted for the n bytes it delivered (an early return on err != nil): a final chunk that arrives together with io.EOF is passed on but not counted/hashed, so signatures over streams from tar, lz4 or zstd readers no longer verify")
		}
		if n < half(4) {
			c.unresolved("only %d accounting stream wrappers found", n)
		}
	}
}

func inRepoPkg(f *FuncInfo) bool {
	return f.Pkg != nil && strings.HasPrefix(f.Pkg.PkgPath, modPath) && !strings.Contains(f.Pkg.PkgPath, "/internal/db/")
}

// ruleNoBoundedCopy: the codecs copy their whole input; a silent bound (io.LimitReader, io.CopyN, io.LimitedReader)
// in pkg/encryption, pkg/signature, pkg/compression or internal/ioext ends a stream cleanly at the bound, so a
// longer value (a header with a large extended attribute) comes back truncated without an error.
func ruleNoBoundedCopy(rule string) func(*Ctx) {
	return func(c *Ctx) {
		c.floor(rule, 1, "bounded-copy call sites in the codec packages (expected none; matcher verified on a fixture)")
		isBounded := func(o types.Object) bool {
			return isPkgFunc(o, "io", "LimitReader") || isPkgFunc(o, "io", "CopyN") || isPkgFunc(o, "io", "NewSectionReader")
		}
		scope := map[string]bool{"pkg/encryption": true, "pkg/signature": true, "pkg/compression": true, "internal/ioext": true, "pkg/keys": true}
		n := 0
		for _, f := range c.Funcs {
			if !scope[f.RelPkg()] {
				continue
			}
			for _, cs := range f.calls {
				if isBounded(cs.Callee) {
					n++
					c.bad(rule, f, fmt.Sprintf("bounded copy#%d", n), cs.Call.Pos(), "%s in a codec: input beyond the bound is dropped without an error (the stream ends cleanly at the limit), so long values come back truncated", exprString(cs.Call.Fun))
				}
			}
		}
		if n == 0 {
			fc, err := fixtureCtx("pkg/fixture", "package fixture\nimport \"io\"\nfunc f(r io.Reader) io.Reader { return io.LimitReader(r, 10) }\n")
			alive := false
			if err == nil {
				for _, g := range fc.Funcs {
					for _, cs := range g.calls {
						if isBounded(cs.Callee) {
							alive = true
						}
					}
				}
			}
			if !alive {
				c.unresolved("bounded-copy matcher failed its positive control")
			}
			c.ok(rule, nil, "no bounded copy", token.NoPos, false, "no io.LimitReader/CopyN in the codec packages (matcher verified on an embedded fixture)")
		}
	}
}

// ruleRootCacheWriters: the index store caches the root spelling; while the cache is empty, getSanitizedPath adopts
// the first absolute name it is asked about as the root. The cache is therefore written only by the frozen set of
// functions below, and emptied only by the whole-table purge: clearing it anywhere else re-opens the adoption window
// in the middle of a session (a lookup that runs outside the filesystem lock - Create's parent check - then turns an
// arbitrary path into the root, after which "/" stops resolving).
func ruleRootCacheWriters(rule string) func(*Ctx) {
	return func(c *Ctx) {
		c.floor(rule, 5, "stores to MetadataPersister.root")
		rootField := c.field("pkg/persisters", "MetadataPersister", "root")
		if rootField == nil {
			return
		}
		writers := map[string]string{
			"NewMetadataPersister":                  "constructor (composite literal): nothing is shared yet",
			"(*MetadataPersister).Open":             "pre-loads the root when the database is opened",
			"(*MetadataPersister).GetRootPath":      "fills the cache from the table",
			"(*MetadataPersister).PurgeAllHeaders":  "the table is emptied, so is the cache",
			"(*MetadataPersister).getSanitizedPath": "lazy adoption while no root is known (first CREATE of a fresh index)",
		}
		n := 0
		for _, st := range c.storesTo(rootField) {
			n++
			root := st.In
			for root.Outer != nil {
				root = root.Outer
			}
			why, ok := writers[root.Name]
			construct := fmt.Sprintf("store#%d in %s", n, root.Name)
			if !ok {
				c.bad(rule, st.In, construct, st.Node.Pos(), "%s writes the cached root; only Open, GetRootPath, PurgeAllHeaders and getSanitizedPath may", root.Name)
				continue
			}
			info := st.In.Pkg.TypesInfo
			if st.Value != nil {
				if sv, isConst := constString(info, st.Value); isConst && sv == "" && root.Name != "(*MetadataPersister).PurgeAllHeaders" && root.Name != "NewMetadataPersister" {
					c.bad(rule, st.In, construct, st.Node.Pos(), "%s empties the cached root outside the whole-table purge", root.Name)
					continue
				}
			}
			c.ok(rule, st.In, construct, st.Node.Pos(), true, "whitelisted writer: "+why)
		}
		if n < half(5) {
			c.unresolved("only %d stores to MetadataPersister.root found", n)
		}
	}
}

// ruleCacheLayerStartsEmpty: the read cache wrapped around a freshly constructed filesystem must start empty - a
// new in-memory layer, or an on-disk directory that was removed (successfully) before it is used. A layer that
// survives from an earlier process serves listings and contents of a tape state that is gone.
func ruleCacheLayerStartsEmpty(rule string) func(*Ctx) {
	return func(c *Ctx) {
		c.floor(rule, 4, "cache layers of NewCacheFilesystem")
		f := c.fn("pkg/cache", "NewCacheFilesystem")
		if f == nil {
			return
		}
		info := f.Pkg.TypesInfo
		fl := c.flow(f)
		n := 0
		for _, cs := range f.calls {
			fn, ok := cs.Callee.(*types.Func)
			if !ok || fn.Name() != "NewCacheOnReadFs" || len(cs.Call.Args) < 2 {
				continue
			}
			n++
			layer := ast.Unparen(cs.Call.Args[1])
			lc, ok := layer.(*ast.CallExpr)
			good, why := false, "the cache layer is "+exprString(layer)
			if ok {
				if lf, ok := calleeObj(info, lc).(*types.Func); ok {
					switch lf.Name() {
					case "NewMemMapFs":
						good = true
					case "NewBasePathFs":
						if len(lc.Args) == 2 {
							dir := objOfIdent(info, lc.Args[1])
							if dir != nil {
								okk, _ := c.successDominates(fl, cs.Call, func(call *ast.CallExpr) bool {
									return isPkgFunc(calleeObj(info, call), "os", "RemoveAll") && len(call.Args) == 1 && objOfIdent(info, call.Args[0]) == dir
								}, nil)
								good = okk
								why = "the on-disk cache directory " + dir.Name() + " is used without having been removed first"
							}
						}
					}
				}
			}
			c.verdictIf(good, rule, f, fmt.Sprintf("cache layer#%d", n), cs.Call.Pos(), "the cache layer starts empty", why+": entries cached by an earlier process are served although the tape has changed since, so the filesystem does not show what a rebuild of the tape shows")
		}
		if n < half(4) {
			c.unresolved("only %d NewCacheOnReadFs calls in NewCacheFilesystem", n)
		}
	}
}

// ruleRenameMoves: Rename reports success only as the result of Operations.Move: there is no exit that returns nil
// (literally, or through an error variable that is known to be nil on that path) without the entry having been
// moved. The replace-an-existing-target branch removes the target first; returning there reports a rename that never
// happened after having destroyed the destination.
func ruleRenameMoves(rule string) func(*Ctx) {
	return func(c *Ctx) {
		c.floor(rule, 2, "exits of STFS.Rename that can report success")
		f := c.fn("pkg/fs", "(*STFS).Rename")
		move := c.fn("pkg/operations", "(*Operations).Move")
		if f == nil || move == nil {
			return
		}
		info := f.Pkg.TypesInfo
		fl := c.flow(f)
		n, viaMove := 0, 0
		for i, ret := range returnsIn(f) {
			if len(ret.Results) != 1 {
				continue
			}
			r := ast.Unparen(ret.Results[0])
			if call, ok := r.(*ast.CallExpr); ok {
				if calleeObj(info, call) == types.Object(move.Obj) {
					n++
					viaMove++
					c.ok(rule, f, fmt.Sprintf("return#%d", i+1), ret.Pos(), true, "returns the result of Operations.Move")
				}
				continue
			}
			success := isNilIdent(info, r)
			if !success {
				if o := objOfIdent(info, r); o != nil {
					isNilFact := func(ft Fact) bool {
						be, ok := ast.Unparen(ft.E).(*ast.BinaryExpr)
						if !ok {
							return false
						}
						var x ast.Expr
						if isNilIdent(info, be.Y) {
							x = be.X
						} else if isNilIdent(info, be.X) {
							x = be.Y
						}
						if x == nil || objOfIdent(info, x) != o {
							return false
						}
						return be.Op == token.EQL && ft.Pos || be.Op == token.NEQ && !ft.Pos
					}
					an := &Analysis{Must: true, Entry: 0,
						Node: func(nd ast.Node, st State) State {
							// an assignment to the variable ends the knowledge
							if as, ok := nd.(*ast.AssignStmt); ok {
								for _, l := range as.Lhs {
									if objOfIdent(info, l) == o {
										return st &^ 1
									}
								}
							}
							return st
						},
						Edge: func(b *cfg.Block, i int, st State) State {
							for _, ft := range fl.edgeFacts(b, i) {
								if isNilFact(ft) {
									st |= 1
								}
							}
							return st
						}}
					fl.solve(an)
					st, reach := fl.before(an, ret)
					known := st&1 != 0
					success = reach && known
				}
			}
			if !success {
				continue
			}
			// renaming an entry onto itself changes nothing: success without a move is right where source and
			// destination are known to be the same entry
			if _, isCmp := renameIdentity(f); isCmp != nil {
				if same, reach := fl.guardedBy(ret, func(ft Fact) bool {
					b, ok := isCmp(ft.E)
					return ok && ((b.Op == token.EQL) == ft.Pos)
				}, nil); reach && same {
					// ... and the source is known to exist: the exit lies behind a lookup of the source (a call that is handed
					// the old name and can fail). `oldname == newname` in front of every lookup also holds for names that
					// were never created.
					oldV := paramVar(f, "oldname")
					looked, _ := fl.dominatedBy(ret, func(m ast.Node) bool {
						for _, call := range callsIn(m) {
							tv, ok := info.Types[call]
							if !ok {
								continue
							}
							tup, ok := tv.Type.(*types.Tuple)
							if !ok || tup.Len() < 2 || !isErrorType(tup.At(tup.Len()-1).Type()) {
								continue
							}
							for _, a := range call.Args {
								if o := objOfIdent(info, a); o != nil && o == types.Object(oldV) {
									return true
								}
							}
						}
						return false
					}, nil)
					if looked {
						c.ok(rule, f, fmt.Sprintf("return#%d", i+1), ret.Pos(), true, "success without a move only where source and destination are the same entry")
						continue
					}
					n++
					c.bad(rule, f, fmt.Sprintf("success without lookup#%d", n-viaMove), ret.Pos(), "Rename reports success for source == destination before it has looked the source up: renaming a name that does not exist (never created, removed, beneath a missing parent) onto itself succeeds, and Rename(\"/\", \"/\") no longer fails")
					continue
				}
			}
			n++
			c.bad(rule, f, fmt.Sprintf("success without Move#%d", n-viaMove), ret.Pos(), "Rename can report success here without having called Operations.Move (the returned error is nil on this path): with an existing destination of the same kind the destination is removed, the source stays where it was, and the caller is told the rename happened")
		}
		if viaMove == 0 {
			c.unresolved("STFS.Rename no longer returns the result of Operations.Move")
		}
	}
}

func storesRecordKey(info *types.Info, n ast.Node, h types.Object, key types.Object, paxField *types.Var) bool {
	as, ok := n.(*ast.AssignStmt)
	if !ok || len(as.Lhs) != 1 {
		return false
	}
	ix, ok := ast.Unparen(as.Lhs[0]).(*ast.IndexExpr)
	if !ok || constOf(info, ix.Index) != key {
		return false
	}
	se, ok := ast.Unparen(ix.X).(*ast.SelectorExpr)
	return ok && (paxField == nil || selField(info, se) == paxField) && objOfIdent(info, se.X) == h
}
