package main

import (
	"fmt"
	"go/ast"
	"go/token"
	"go/types"
	"strings"
)

func init() {
	register(&Property{
		ID:          "C15",
		Explanation: "May-not-reach analysis over /repo's type-checked source: from every exported method of *fs.STFS and *fs.File, every statically resolved call path to a tape- or index-changing sink (BackendConfig.GetWriter, the row-changing methods of config.MetadataPersister computed from pkg/persisters, any use of the writeOps field, getFileBuffer) must cross a control-flow edge on which the instance is known not to be read-only (false edge of a `readOnly` test for STFS; true edge of `flags.Write` or of `writeBuf != nil` for File), decided by must-dataflow over go/cfg per function with summaries for callees and local closures. Flag-integrity rules show those File-side facts really imply a writable filesystem: flags.Write/Append/Truncate are set only under !readOnly in OpenFile, readOnly is assigned only at construction, writeBuf becomes non-nil only in enterWriteMode whose callers are gated by flags.Write. A guard test's read-only branch must return os.ErrPermission.",
		NotDecided:  "Equality of read results with a writable twin; mutations performed by user-supplied callbacks (onHeader, getSrc); the in-memory root-path cache (not tape/index state).",
		Assumptions: []string{"calls through function values other than BackendConfig fields and local closures do not reach sinks (onHeader/getSrc callbacks are user code)", "reflection/unsafe are not used in pkg/fs (asserted)"},
		Rules:       []func(*Ctx){ruleC15GuardedReach, ruleC15FlagIntegrity, ruleC15PermissionError, ruleNoReflectUnsafe("C15")},
	})
}

type roGuards struct {
	c          *Ctx
	s          *sinkInfo
	readOnly   *types.Var
	flagsW     *types.Var
	writeBuf   *types.Var
	safe       map[*FuncInfo]int // 0 unknown 1 in-progress 2 unsafe 3 safe
	why        map[*FuncInfo]string
	exemptCall func(cs *CallSite) bool
}

func (g *roGuards) isROFact(info *types.Info, f Fact) bool {
	if fv := selField(info, f.E); fv != nil {
		if fv == g.readOnly && !f.Pos {
			return true
		}
		if fv == g.flagsW && f.Pos {
			return true
		}
	}
	if be, ok := ast.Unparen(f.E).(*ast.BinaryExpr); ok {
		var x ast.Expr
		if isNilIdent(info, be.Y) {
			x = be.X
		} else if isNilIdent(info, be.X) {
			x = be.Y
		}
		if x != nil && selField(info, x) == g.writeBuf {
			if be.Op == token.NEQ && f.Pos || be.Op == token.EQL && !f.Pos {
				return true
			}
		}
	}
	return false
}

// unguardedSinkward lists the call sites (and free-standing literals) of f through which a sink can be reached
// without crossing a not-read-only edge inside f or inside the callee.
func (g *roGuards) unguardedSinkward(f *FuncInfo) []string {
	var out []string
	fl := g.c.flow(f)
	info := f.Pkg.TypesInfo
	check := func(node ast.Node, what string) {
		okk, reach := fl.guardedBy(node, func(ft Fact) bool { return g.isROFact(info, ft) }, nil)
		if !reach {
			return // dead code
		}
		if !okk {
			out = append(out, fmt.Sprintf("%s at %s", what, g.c.pos(node.Pos())))
		}
	}
	called := map[*FuncInfo]bool{}
	for _, cs := range f.calls {
		if cs.Target != nil {
			called[cs.Target] = true
		}
		if g.exemptCall != nil && g.exemptCall(cs) {
			continue
		}
		if w := g.s.sinkOf(cs); w != "" {
			check(cs.Call, w)
			continue
		}
		if cs.Target != nil && g.s.reachesSink(cs.Target) && !g.isSafe(cs.Target) {
			check(cs.Call, "call of "+cs.Target.Name+" ("+g.why[cs.Target]+")")
		}
	}
	// literals that are not bound to a called local (callbacks handed to other code, go statements)
	for _, l := range g.c.litsIn(f) {
		if called[l] {
			continue
		}
		if g.s.reachesSink(l) && !g.isSafe(l) {
			check(l.Lit, "function literal "+l.Name+" ("+g.why[l]+")")
		}
	}
	return out
}

func (g *roGuards) isSafe(f *FuncInfo) bool {
	switch g.safe[f] {
	case 1, 3:
		return true // optimistic on cycles: each member is itself checked
	case 2:
		return false
	}
	g.safe[f] = 1
	u := g.unguardedSinkward(f)
	if len(u) == 0 {
		g.safe[f] = 3
		return true
	}
	g.safe[f] = 2
	g.why[f] = strings.Join(u, "; ")
	return false
}

func newROGuards(c *Ctx) *roGuards {
	g := &roGuards{c: c, s: c.sinks(), safe: map[*FuncInfo]int{}, why: map[*FuncInfo]string{}}
	g.readOnly = c.field("pkg/fs", "STFS", "readOnly")
	g.flagsW = c.field("pkg/fs", "FileFlags", "Write")
	g.writeBuf = c.field("pkg/fs", "File", "writeBuf")
	return g
}

func exportedMethods(c *Ctx, rel, typ string) []*FuncInfo {
	var out []*FuncInfo
	for _, f := range c.Funcs {
		if f.Decl == nil || f.RelPkg() != rel || f.Decl.Recv == nil || !f.Decl.Name.IsExported() {
			continue
		}
		if strings.HasPrefix(f.Name, "(*"+typ+").") || strings.HasPrefix(f.Name, "("+typ+").") {
			out = append(out, f)
		}
	}
	return out
}

func ruleC15GuardedReach(c *Ctx) {
	const rule = "C15.guarded-reach"
	c.floor(rule, 30, "exported methods of *fs.STFS and *fs.File (sources); at least 15 of them reach a sink today")
	g := newROGuards(c)
	if g.readOnly == nil || g.flagsW == nil || g.writeBuf == nil || g.s.getWriter == nil {
		return
	}
	if len(g.s.mutators) < 5 {
		c.unresolved("index-store mutator set has %d members (%s), expected the five row-changing methods", len(g.s.mutators), g.s.mutatorNames())
	}
	c.note("index-store mutators computed from pkg/persisters: %s", g.s.mutatorNames())
	recIndex := c.fn("pkg/recovery", "Index")
	initialize := c.fn("pkg/fs", "(*STFS).Initialize")
	// the single whitelisted unguarded reach: Initialize building a missing index
	g.exemptCall = func(cs *CallSite) bool {
		return cs.In == initialize && cs.Target != nil && cs.Target == recIndex
	}
	reaching := 0
	for _, typ := range []string{"STFS", "File"} {
		for _, m := range exportedMethods(c, "pkg/fs", typ) {
			if !g.s.reachesSink(m) {
				c.ok(rule, m, "source", m.Decl.Pos(), false, "no tape/index sink reachable through statically resolved calls")
				continue
			}
			reaching++
			if g.isSafe(m) {
				c.ok(rule, m, "source", m.Decl.Pos(), true, "sink reachable (%s); every path to it crosses a not-read-only edge", g.s.reachWhy[m])
			} else {
				c.bad(rule, m, "source", m.Decl.Pos(), "a read-only instance can reach a sink: %s", g.why[m])
			}
		}
	}
	if reaching < half(15) {
		c.unresolved("only %d exported fs methods reach a sink (expected >= 15): sink model is broken", reaching)
	}
	// ... and the exempted rebuild must stay available to read-only instances ("apart from building a missing index on
	// first open"; read calls must answer like a writable twin): it is not control-dependent on the instance being writable
	if initialize != nil && recIndex != nil {
		k := 0
		scan := func(fn *FuncInfo) {
			fl := c.flow(fn)
			info := fn.Pkg.TypesInfo
			for _, cs := range fn.calls {
				if cs.Target != recIndex {
					continue
				}
				k++
				gated, reach := fl.guardedBy(cs.Call, func(ft Fact) bool { return g.isROFact(info, ft) }, nil)
				if !reach {
					continue
				}
				c.verdictIf(!gated, rule, fn, fmt.Sprintf("rebuild#%d available read-only", k), cs.Call.Pos(), "the rebuild of a missing index is reachable for a read-only instance",
					"the rebuild of a missing index is reachable only when the instance is writable: a read-only mount over a tape without an index fails (or stays empty) instead of showing what a writable instance shows")
			}
		}
		scan(initialize)
		for _, l := range c.litsIn(initialize) {
			scan(l)
		}
		if k == 0 {
			c.unresolved("Initialize no longer calls recovery.Index directly")
		}
	}
	// the exemption must stay narrow: inside Initialize, the root-creating closure has to test readOnly itself
	if initialize != nil {
		for _, l := range c.litsIn(initialize) {
			if g.s.reachesSink(l) {
				c.verdictIf(g.isSafe(l), rule, l, "closure", l.Lit.Pos(),
					"root-creating closure tests readOnly before appending", "closure in Initialize reaches a sink without a readOnly test: "+g.why[l])
			}
		}
	}
}

// stores lists every place that assigns to field fv: assignments, inc/dec and composite-literal elements.
type fieldStore struct {
	In    *FuncInfo
	Node  ast.Node
	Value ast.Expr // nil for inc/dec or multi-value assignment
}

func (c *Ctx) storesTo(fv *types.Var) []fieldStore {
	var out []fieldStore
	for _, f := range c.Funcs {
		info := f.Pkg.TypesInfo
		walkOwn(f.Body(), func(n ast.Node) {
			switch s := n.(type) {
			case *ast.AssignStmt:
				for i, l := range s.Lhs {
					if selField(info, l) == fv {
						var v ast.Expr
						if len(s.Lhs) == len(s.Rhs) {
							v = s.Rhs[i]
						}
						out = append(out, fieldStore{f, s, v})
					}
				}
			case *ast.IncDecStmt:
				if selField(info, s.X) == fv {
					out = append(out, fieldStore{f, s, nil})
				}
			case *ast.UnaryExpr:
				if s.Op == token.AND && selField(info, s.X) == fv {
					out = append(out, fieldStore{f, s, nil}) // address taken: treated as a possible store
				}
			case *ast.CompositeLit:
				tv, ok := info.Types[s]
				if !ok {
					return
				}
				t := tv.Type
				if p, ok := t.Underlying().(*types.Pointer); ok {
					t = p.Elem()
				}
				st, ok := t.Underlying().(*types.Struct)
				if !ok {
					return
				}
				for i, e := range s.Elts {
					if kv, ok := e.(*ast.KeyValueExpr); ok {
						if id, ok := kv.Key.(*ast.Ident); ok && info.Uses[id] == fv {
							out = append(out, fieldStore{f, kv, kv.Value})
						}
					} else if i < st.NumFields() && st.Field(i) == fv {
						out = append(out, fieldStore{f, e, e})
					}
				}
			}
		})
	}
	return out
}

func isConstTrue(info *types.Info, e ast.Expr) bool {
	if e == nil {
		return false
	}
	tv, ok := info.Types[e]
	return ok && tv.Value != nil && tv.Value.String() == "true"
}

func ruleC15FlagIntegrity(c *Ctx) {
	const rule = "C15.flag-integrity"
	c.floor(rule, 8, "stores to FileFlags.{Write,Append,Truncate}, STFS.readOnly, File.writeBuf and calls of enterWriteMode")
	g := newROGuards(c)
	openFile := c.fn("pkg/fs", "(*STFS).OpenFile")
	newSTFS := c.fn("pkg/fs", "NewSTFS")
	enter := c.fn("pkg/fs", "(*File).enterWriteMode")
	if g.readOnly == nil || openFile == nil || newSTFS == nil || enter == nil {
		return
	}
	for _, name := range []string{"Write", "Append", "Truncate"} {
		fv := c.field("pkg/fs", "FileFlags", name)
		if fv == nil {
			continue
		}
		n := 0
		for _, st := range c.storesTo(fv) {
			n++
			info := st.In.Pkg.TypesInfo
			construct := fmt.Sprintf("store FileFlags.%s#%d", name, n)
			if st.Value != nil {
				if tv, ok := info.Types[st.Value]; ok && tv.Value != nil && tv.Value.String() == "false" {
					c.ok(rule, st.In, construct, st.Node.Pos(), false, "stores constant false")
					continue
				}
			}
			if st.In != openFile {
				c.bad(rule, st.In, construct, st.Node.Pos(), "FileFlags.%s may be set outside STFS.OpenFile, where no readOnly test protects it", name)
				continue
			}
			fl := c.flow(st.In)
			okk, reach := fl.guardedBy(st.Node, func(ft Fact) bool { return selField(info, ft.E) == g.readOnly && !ft.Pos }, nil)
			if !reach {
				continue
			}
			c.verdictIf(okk, rule, st.In, construct, st.Node.Pos(),
				"set only on the not-read-only branch of OpenFile", "FileFlags."+name+" can be set while the filesystem is read-only")
		}
	}
	// readOnly is assigned at construction only
	n := 0
	for _, st := range c.storesTo(g.readOnly) {
		n++
		c.verdictIf(st.In == newSTFS, rule, st.In, fmt.Sprintf("store STFS.readOnly#%d", n), st.Node.Pos(),
			"assigned in the constructor", "STFS.readOnly is modified after construction")
	}
	if n == 0 {
		c.unresolved("no store to STFS.readOnly found (constructor changed?)")
	}
	// writeBuf becomes non-nil only in enterWriteMode
	n = 0
	for _, st := range c.storesTo(g.writeBuf) {
		n++
		info := st.In.Pkg.TypesInfo
		construct := fmt.Sprintf("store File.writeBuf#%d", n)
		if st.Value != nil && isNilIdent(info, st.Value) {
			c.ok(rule, st.In, construct, st.Node.Pos(), false, "stores nil")
			continue
		}
		c.verdictIf(st.In == enter, rule, st.In, construct, st.Node.Pos(),
			"write cache attached inside enterWriteMode only", "File.writeBuf can become non-nil outside enterWriteMode, so Sync/Close could flush on a handle that never passed the flags.Write gate")
	}
	// every call of enterWriteMode is gated by flags.Write
	n = 0
	for _, f := range c.Funcs {
		for _, cs := range f.calls {
			if cs.Target != enter {
				continue
			}
			n++
			info := f.Pkg.TypesInfo
			fl := c.flow(f)
			okk, reach := fl.guardedBy(cs.Call, func(ft Fact) bool { return selField(info, ft.E) == g.flagsW && ft.Pos }, nil)
			if !reach {
				continue
			}
			c.verdictIf(okk, rule, f, fmt.Sprintf("call enterWriteMode#%d", n), cs.Call.Pos(),
				"dominated by the flags.Write test", "enterWriteMode reachable without the flags.Write test")
		}
	}
	if n < half(4) {
		c.unresolved("only %d calls of enterWriteMode found (expected >= 4)", n)
	}
}

// ruleC15PermissionError: each `if x.readOnly { ... }` guard (no else) ends in a return of os.ErrPermission.
func ruleC15PermissionError(c *Ctx) {
	const rule = "C15.permission-error"
	c.floor(rule, 13, "`if readOnly` guard statements in pkg/fs")
	ro := c.field("pkg/fs", "STFS", "readOnly")
	errPerm := c.extObj("os", "ErrPermission")
	if ro == nil || errPerm == nil {
		return
	}
	for _, f := range c.Funcs {
		if f.RelPkg() != "pkg/fs" {
			continue
		}
		info := f.Pkg.TypesInfo
		n := 0
		walkOwn(f.Body(), func(nd ast.Node) {
			is, ok := nd.(*ast.IfStmt)
			if !ok || is.Else != nil || selField(info, is.Cond) != ro {
				return
			}
			// a branch that does not end in a return is not a rejecting guard (OpenFile's flag selection written
			// with an early exit); what it lets through is judged by guarded-reach and flag-integrity
			if len(is.Body.List) == 0 {
				return
			}
			if _, isRet := is.Body.List[len(is.Body.List)-1].(*ast.ReturnStmt); !isRet {
				return
			}
			n++
			good := false
			if len(is.Body.List) > 0 {
				if ret, ok := is.Body.List[len(is.Body.List)-1].(*ast.ReturnStmt); ok && len(ret.Results) > 0 {
					last := ast.Unparen(ret.Results[len(ret.Results)-1])
					if se, ok := last.(*ast.SelectorExpr); ok && info.Uses[se.Sel] == errPerm {
						good = true
					}
				}
			}
			c.verdictIf(good, rule, f, fmt.Sprintf("if-readOnly#%d", n), is.Pos(),
				"read-only branch returns os.ErrPermission", "read-only branch does not return os.ErrPermission")
		})
	}
}

// ruleNoReflectUnsafe asserts the trusted-base assumption that the anchored packages use neither reflect nor unsafe.
func ruleNoReflectUnsafe(prop string) func(*Ctx) {
	return func(c *Ctx) {
		rule := prop + ".no-reflect-unsafe"
		for _, rel := range []string{"pkg/fs", "pkg/operations", "pkg/recovery", "pkg/tape", "pkg/persisters"} {
			p := c.pkg(rel)
			if p == nil {
				continue
			}
			bad := ""
			for path := range p.Imports {
				if path == "reflect" || path == "unsafe" {
					bad = path
				}
			}
			if bad != "" {
				c.add(rule, nil, "imports "+rel, token.NoPos, Undecided, true, "package %s imports %s: call-graph based rules are no longer sound", rel, bad)
			} else {
				c.add(rule, nil, "imports "+rel, token.NoPos, Discharged, false, "neither reflect nor unsafe imported")
			}
		}
	}
}
