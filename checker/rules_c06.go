package main

import (
	"fmt"
	"go/ast"
	"go/token"
	"go/types"
	"golang.org/x/tools/go/cfg"
)

func init() {
	register(&Property{
		ID:          "C06",
		Explanation: "Narrow structural clauses of crash prefix-recoverability, decided on the indexer's source (the behaviour on arbitrary torn tapes is NOT decided): (resync-exits) the resynchronisation loop entered after a failed header read leaves only by end-of-file, by a successfully parsed header, or by returning a drive error - a header-parse error never ends the rebuild and never escapes the loop; every iteration re-derives the position from the drive's own offset, rounded UP to whole blocks (so an unaligned tail is stepped over instead of being re-read forever), seeks there and reads the next header; (header-before-content) in each iteration the header is applied to the index (indexHeader succeeded) before the member's content is skipped, which is what limits the damage of a cut inside content to that one record; (content-error-surfaces) a failure while skipping or seeking is returned to the caller, not swallowed; (no-compensation-on-error) no index row is changed on an edge on which an error is known to be non-nil - the rebuild keeps what complete records established; (append-only) cited from C05: no code path other than an explicit overwrite truncates, rewinds or rewrites the drive, so bytes before a torn tail are never touched.",
		NotDecided:  "That archive/tar's reader terminates and fails cleanly on arbitrary bytes, that the rebuilt state equals the state after the last completely written record, that restoring the torn entry reports an error, the off-grid append after an unaligned cut (C16).",
		Assumptions: []string{"(*tar.Reader).Next consumes at least one block or returns io.EOF", "reads at end of file return io.EOF"},
		Rules:       []func(*Ctx){ruleC06ResyncExits, ruleC06NoCompensationOnError, ruleC06HeaderBeforeContent, ruleC06ContentErrorSurfaces, ruleOverwriteProvenance("C06.append-only"), func(c *Ctx) { ruleC04BlockCountRoundsUpAs("C06.block-count-rounds-up")(c) }},
	})
}

// resyncLoops finds, in recovery.Index/Query, the inner `for` loops nested in the `if err != nil` that follows a header read.
func resyncLoops(c *Ctx, f *FuncInfo) []*ast.ForStmt {
	var out []*ast.ForStmt
	walkOwn(f.Body(), func(nd ast.Node) {
		outer, ok := nd.(*ast.ForStmt)
		if !ok {
			return
		}
		for _, st := range outer.Body.List {
			is, ok := st.(*ast.IfStmt)
			if !ok {
				continue
			}
			for _, st2 := range is.Body.List {
				if inner, ok := st2.(*ast.ForStmt); ok {
					out = append(out, inner)
				}
			}
		}
	})
	return out
}

func ruleC06ResyncExits(c *Ctx) {
	const rule = "C06.resync-exits"
	c.floor(rule, 2, "resynchronisation loops of recovery.Index and recovery.Query")
	eof := c.extObj("io", "EOF")
	for _, name := range []string{"Index", "Query"} {
		f := c.fn("pkg/recovery", name)
		if f == nil {
			continue
		}
		info := f.Pkg.TypesInfo
		loops := resyncLoops(c, f)
		if len(loops) == 0 {
			c.unresolved("no resynchronisation loop found in %s", name)
			continue
		}
		for li, loop := range loops {
			base := fmt.Sprintf("resync loop#%d", li+1)
			// (a) unconditional loop (`for {`): it can only end through break/return
			c.verdictIf(loop.Cond == nil && loop.Init == nil && loop.Post == nil, rule, f, base+" shape", loop.Pos(), "plain `for {}` loop: leaves only by break or return", "the resynchronisation loop has a loop condition/post statement; its exits are no longer the enumerated ones")
			// (b) classify every exit statement of the loop body
			var nextAssign *ast.AssignStmt
			ast.Inspect(loop.Body, func(m ast.Node) bool {
				if as, ok := m.(*ast.AssignStmt); ok && len(as.Rhs) == 1 {
					if call, ok := ast.Unparen(as.Rhs[0]).(*ast.CallExpr); ok && isMethod(calleeObj(info, call), "archive/tar", "Reader", "Next") {
						nextAssign = as
					}
				}
				return true
			})
			if nextAssign == nil {
				c.bad(rule, f, base+" reads a header", loop.Pos(), "the loop no longer reads the next header after re-positioning: it cannot make progress")
				continue
			}
			// the Seek to the re-derived position precedes the header read
			seeks := 0
			ast.Inspect(loop.Body, func(m ast.Node) bool {
				if call, ok := m.(*ast.CallExpr); ok {
					if se, ok := ast.Unparen(call.Fun).(*ast.SelectorExpr); ok && se.Sel.Name == "Seek" && call.Pos() < nextAssign.Pos() {
						seeks++
					}
				}
				return true
			})
			c.verdictIf(seeks >= 2, rule, f, base+" re-positions", loop.Pos(), "each iteration reads the drive offset and seeks to the re-derived block boundary before reading a header", "an iteration reads the next header without first querying the offset and seeking to the re-derived position")
			// exits after the header read. The original shape is `if err != nil { if err == io.EOF { break }; continue }; break`;
			// what matters is: a parse error goes round again (continue), end of file and a parsed header leave the loop
			// (break, return, or a goto out of it), and the parse error itself is never returned.
			nbreak, ncont, nretParse := 0, 0, 0
			var after []ast.Stmt
			for i, st := range loop.Body.List {
				if st == ast.Stmt(nextAssign) {
					after = loop.Body.List[i+1:]
				}
			}
			errObj := objOfIdent(info, nextAssign.Lhs[len(nextAssign.Lhs)-1])
			eofBreak := false
			contsExcludeEOF := true
			for _, st := range after {
				ast.Inspect(st, func(m ast.Node) bool {
					switch x := m.(type) {
					case *ast.FuncLit:
						return false
					case *ast.BranchStmt:
						if x.Tok == token.BREAK || x.Tok == token.GOTO {
							nbreak++
						}
						if x.Tok == token.CONTINUE {
							ncont++
							// is this retry known not to happen at end of file?
							excl := false
							for _, cl := range enclosingCondsFlow(info, loop.Body, x) {
								for _, ft := range condFacts(cl.e, cl.pos) {
									if known, eq := sentinelFact(info, ft, eof); known && !eq {
										excl = true
									}
								}
							}
							if !excl {
								contsExcludeEOF = false
							}
						}
					case *ast.ReturnStmt:
						returnsParseErr := false
						for _, r := range x.Results {
							if errObj != nil && objOfIdent(info, r) == errObj {
								returnsParseErr = true
							}
						}
						if returnsParseErr {
							nretParse++
						} else {
							nbreak++
						}
					case *ast.IfStmt:
						if known, eq := sentinelCond(info, x.Cond, eof); known && eq {
							if len(x.Body.List) > 0 {
								if br, ok := x.Body.List[len(x.Body.List)-1].(*ast.BranchStmt); ok && (br.Tok == token.BREAK || br.Tok == token.GOTO) {
									eofBreak = true
								}
								if _, ok := x.Body.List[len(x.Body.List)-1].(*ast.ReturnStmt); ok {
									eofBreak = true
								}
							}
						}
					}
					return true
				})
			}
			if !eofBreak && ncont >= 1 && contsExcludeEOF && nbreak >= 1 {
				eofBreak = true // every retry is under `err != io.EOF`: end of file falls through to the exit
				nbreak++        // (that exit serves both "end of file" and "header parsed")
			}
			c.verdictIf(eofBreak, rule, f, base+" EOF ends it", nextAssign.Pos(), "end of file while resynchronising ends the loop", "end of file while resynchronising does not leave the loop: a torn tail makes the rebuild spin")
			c.verdictIf(nretParse == 0, rule, f, base+" parse error stays inside", nextAssign.Pos(), "a header-parse error is never returned from the loop", "a header-parse error escapes the resynchronisation loop: one torn record aborts the whole rebuild")
			c.verdictIf(ncont >= 1 && nbreak >= 2, rule, f, base+" retry/success exits", nextAssign.Pos(), "parse error -> next iteration; parsed header -> leave the loop", "the loop lacks the retry (continue) or the success exit (break)")
		}
	}
	_ = types.Universe
}

func ruleC06HeaderBeforeContent(c *Ctx) {
	const rule = "C06.header-before-content"
	c.floor(rule, 2, "content skips (io.Copy to Discard) in recovery.Index")
	f := c.fn("pkg/recovery", "Index")
	ih := c.fn("pkg/recovery", "indexHeader")
	if f == nil || ih == nil {
		return
	}
	info := f.Pkg.TypesInfo
	fl := c.flow(f)
	offset := roleVar(f, "offset")
	// per loop iteration: after a header was read, the content skip is reached only (a) across the success edge of
	// indexHeader, or (b) across the edge that says this header is before the caller's offset and is not to be indexed
	// (`i >= offset` false / `i < offset` true). Decided as a must-dataflow; reading the next header resets the fact.
	const applied = 1
	isNext := func(n ast.Node) bool {
		for _, call := range callsIn(n) {
			if isMethod(calleeObj(info, call), "archive/tar", "Reader", "Next") {
				return true
			}
		}
		return false
	}
	var idxCalls []*ast.CallExpr
	for _, cs := range f.calls {
		if cs.Target == ih {
			idxCalls = append(idxCalls, cs.Call)
		}
	}
	an := &Analysis{Must: true, Entry: 0,
		Node: func(n ast.Node, st State) State {
			if isNext(n) {
				return st &^ applied
			}
			return st
		},
		Edge: func(b *cfg.Block, i int, st State) State {
			for _, ft := range fl.edgeFacts(b, i) {
				be, ok := ast.Unparen(ft.E).(*ast.BinaryExpr)
				if !ok {
					continue
				}
				// the "not to be indexed" edge of a comparison with the offset parameter
				if offset != nil && (usesObj(info, be.Y, offset) || usesObj(info, be.X, offset)) {
					op := be.Op
					if usesObj(info, be.X, offset) && !usesObj(info, be.Y, offset) {
						switch op { // offset on the left: mirror
						case token.LSS:
							op = token.GTR
						case token.LEQ:
							op = token.GEQ
						case token.GTR:
							op = token.LSS
						case token.GEQ:
							op = token.LEQ
						}
					}
					if (op == token.GEQ || op == token.GTR) && !ft.Pos || (op == token.LSS || op == token.LEQ) && ft.Pos {
						st |= applied
					}
					continue
				}
				// success edge of an indexHeader call evaluated in this block
				var x ast.Expr
				if isNilIdent(info, be.Y) {
					x = be.X
				} else if isNilIdent(info, be.X) {
					x = be.Y
				}
				if x == nil || !(be.Op == token.EQL && ft.Pos || be.Op == token.NEQ && !ft.Pos) {
					continue
				}
				obj := objOfIdent(info, x)
				for _, nd := range fl.condNodes(b) {
					as, ok := nd.(*ast.AssignStmt)
					if !ok || len(as.Rhs) != 1 || obj == nil {
						continue
					}
					assigns := false
					for _, l := range as.Lhs {
						if objOfIdent(info, l) == obj {
							assigns = true
						}
					}
					if !assigns {
						continue
					}
					for _, ic := range idxCalls {
						if ast.Unparen(as.Rhs[0]) == ast.Expr(ic) {
							st |= applied
						}
					}
				}
			}
			return st
		}}
	fl.solve(an)
	n := 0
	for _, cs := range f.calls {
		if !isPkgFunc(cs.Callee, "io", "Copy") || len(cs.Call.Args) != 2 {
			continue
		}
		if !isDiscard(info, cs.Call.Args[0]) {
			continue
		}
		n++
		st, reach := fl.before(an, cs.Call)
		if !reach {
			continue
		}
		c.verdictIf(st&applied != 0 && len(idxCalls) > 0, rule, f, fmt.Sprintf("skip#%d", n), cs.Call.Pos(), "the header of a member is applied to the index (error-checked) before its content is skipped", "the member's content is skipped before/without its header having been applied: a cut inside the content would lose the record's metadata too, or an unapplied header is silently passed over")
	}
	if n < 2 {
		c.unresolved("only %d content skips found in recovery.Index", n)
	}
}

func isDiscard(info *types.Info, e ast.Expr) bool {
	se, ok := ast.Unparen(e).(*ast.SelectorExpr)
	if !ok {
		return false
	}
	o := info.Uses[se.Sel]
	return o != nil && o.Name() == "Discard" && o.Pkg() != nil && (o.Pkg().Path() == "io" || o.Pkg().Path() == "io/ioutil")
}

func ruleC06ContentErrorSurfaces(c *Ctx) {
	const rule = "C06.content-error-surfaces"
	c.floor(rule, 6, "skip and seek calls inside recovery.Index")
	f := c.fn("pkg/recovery", "Index")
	if f == nil {
		return
	}
	info := f.Pkg.TypesInfo
	n := 0
	for _, cs := range f.calls {
		isSkip := isPkgFunc(cs.Callee, "io", "Copy") && len(cs.Call.Args) == 2 && isDiscard(info, cs.Call.Args[0])
		isSeek := false
		if se, ok := ast.Unparen(cs.Call.Fun).(*ast.SelectorExpr); ok && se.Sel.Name == "Seek" {
			isSeek = true
		}
		if !isSkip && !isSeek {
			continue
		}
		n++
		what := "Seek"
		if isSkip {
			what = "content skip"
		}
		c.verdictIf(errorReturned(f, cs.Call), rule, f, fmt.Sprintf("%s#%d", what, n), cs.Call.Pos(), "a failing "+what+" ends the rebuild with that error", "the error of a "+what+" is not returned: a cut inside content (unexpected EOF) would be passed over silently and the following garbage indexed")
	}
	if n < half(6) {
		c.unresolved("only %d skip/seek calls found in recovery.Index", n)
	}
}

// ruleC06NoCompensationOnError: the rebuild applies records strictly forward; an error while reading (a cut tape)
// ends the pass with what has been applied so far. No index row is changed inside error handling (on an edge on
// which some error value is known to be non-nil): "undoing" the entry of a torn record there would also undo state
// that earlier, complete records established (a torn content update would delete the file whose old content is intact).
func ruleC06NoCompensationOnError(c *Ctx) {
	const rule = "C06.no-compensation-on-error"
	c.floor(rule, 2, "index-changing calls in recovery.Index")
	f := c.fn("pkg/recovery", "Index")
	s := c.sinks()
	if f == nil {
		return
	}
	info := f.Pkg.TypesInfo
	fl := c.flow(f)
	// functions from which a row change is reachable
	changes := map[*FuncInfo]bool{}
	for ch := true; ch; {
		ch = false
		for _, g := range c.Funcs {
			if changes[g] {
				continue
			}
			for _, cs := range g.calls {
				if s.isMutatorCall(cs) || (cs.Target != nil && changes[cs.Target]) {
					changes[g] = true
					ch = true
					break
				}
			}
		}
	}
	isErrNonNil := func(ft Fact) bool {
		be, ok := ast.Unparen(ft.E).(*ast.BinaryExpr)
		if !ok {
			return false
		}
		var x ast.Expr
		if isNilIdent(info, be.Y) {
			x = be.X
		} else if isNilIdent(info, be.X) {
			x = be.Y
		}
		if x == nil {
			return false
		}
		tv, ok := info.Types[x]
		if !ok || tv.Type == nil || tv.Type.String() != "error" {
			return false
		}
		return be.Op == token.NEQ && ft.Pos || be.Op == token.EQL && !ft.Pos
	}
	n := 0
	for _, cs := range f.calls {
		if !(s.isMutatorCall(cs) || (cs.Target != nil && changes[cs.Target])) {
			continue
		}
		n++
		inErr, reach := fl.guardedBy(cs.Call, isErrNonNil, nil)
		if !reach {
			continue
		}
		c.verdictIf(!inErr, rule, f, fmt.Sprintf("row change#%d %s", n, exprString(cs.Call.Fun)), cs.Call.Pos(),
			"rows are changed only on the forward path, never while handling an error", "the index is changed inside error handling ("+exprString(cs.Call.Fun)+" on a path on which an error is known to be non-nil): compensating for a torn record also discards what earlier complete records established")
	}
	if n < 2 {
		c.unresolved("only %d index-changing calls found in recovery.Index", n)
	}
}
