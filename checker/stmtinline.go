package main

// Statement-level inliner for the Go error-handling idiom, used by normalise.go where the x/tools inliner would have
// to wrap the callee in a function literal. It handles calls of a helper H that make up a whole statement:
//
//	H(args)                                   (expression statement)
//	return H(args)                            (tail call)
//	lhs... := H(args)   /   lhs... = H(args)  (assignment; an immediately following `if err != nil {..}` is folded in)
//	if lhs... := H(args); cond { A } else { B }
//
// and replaces the statement by the helper's body in a block of its own, with every `return e...` of the helper turned
// into the continuation of the call site: the results are bound exactly as the call bound them, the code that looked at
// them (the if, or nothing) follows, and control leaves through a goto to a label behind the block. Two cases are
// short-cut because they are what makes the result analysable path by path: a `return ..., nil` where the caller tests
// `err != nil` skips the test (the error branch cannot run), and a `return ..., err` that itself sits under
// `if err != nil` runs the caller's error branch directly. Everything the helper declares (parameters that cannot be
// replaced by their argument, results, locals, labels) is renamed with a suffix, so the caller's code copied into the
// helper's scope cannot be captured. Helpers with defer/recover/type parameters/variadic calls are left alone. Every
// result is type-checked by the caller (normalise.go) and thrown away if it does not compile.

import (
	"bytes"
	"fmt"
	"go/ast"
	"go/format"
	"go/parser"
	"go/token"
	"go/types"
	"sort"
	"strings"

	"golang.org/x/tools/go/ast/astutil"
	"golang.org/x/tools/go/packages"
)

type textEdit struct {
	from, to int
	text     string
}

func applyEdits(src []byte, edits []textEdit) []byte {
	sort.Slice(edits, func(i, j int) bool { return edits[i].from < edits[j].from })
	var out bytes.Buffer
	pos := 0
	for _, e := range edits {
		if e.from < pos {
			continue // overlapping edit: keep the outer/earlier one
		}
		out.Write(src[pos:e.from])
		out.WriteString(e.text)
		pos = e.to
	}
	out.Write(src[pos:])
	return out.Bytes()
}

func stmtInline(p *packages.Package, file *ast.File, call *ast.CallExpr, cfd *ast.FuncDecl, content, calleeContent []byte, k int) ([]byte, error) {
	info := p.TypesInfo
	fset := p.Fset
	off := func(pos token.Pos) int { return fset.Position(pos).Offset }
	text := func(n ast.Node) string { return string(content[off(n.Pos()):off(n.End())]) }
	suffix := fmt.Sprintf("_h%d", k)

	// ---- callee checks
	fn, _ := info.Defs[cfd.Name].(*types.Func)
	if fn == nil || cfd.Body == nil {
		return nil, fmt.Errorf("no body")
	}
	sig := fn.Type().(*types.Signature)
	if sig.TypeParams() != nil || sig.RecvTypeParams() != nil {
		return nil, fmt.Errorf("generic helper")
	}
	if call.Ellipsis.IsValid() || sig.Variadic() {
		return nil, fmt.Errorf("variadic helper")
	}
	bad := ""
	usesDefer := false
	ast.Inspect(cfd.Body, func(n ast.Node) bool {
		switch x := n.(type) {
		case *ast.DeferStmt:
			usesDefer = true
		case *ast.CallExpr:
			if id, ok := x.Fun.(*ast.Ident); ok && id.Name == "recover" {
				bad = "helper uses recover"
			}
		}
		return bad == ""
	})
	if bad != "" {
		return nil, fmt.Errorf("%s", bad)
	}

	// ---- call-site form
	path, _ := astutil.PathEnclosingInterval(file, call.Pos(), call.End())
	// path[0] is the call (or a paren around it is skipped by exactness); find the statement
	var stmt ast.Stmt
	var stmtIdx int
	for i, n := range path {
		if s, ok := n.(ast.Stmt); ok {
			stmt = s
			stmtIdx = i
			break
		}
	}
	if stmt == nil {
		return nil, fmt.Errorf("call is not inside a statement")
	}
	type formKind int
	const (
		fExpr formKind = iota
		fReturn
		fAssign
		fIfInit
		fNestedReturn // `return a, f(H(x)), b`: each return of H continues with this return, H(x) replaced by its result
	)
	var form formKind
	var lhs []ast.Expr
	var assignTok token.Token
	switch s := stmt.(type) {
	case *ast.ExprStmt:
		if ast.Unparen(s.X) != ast.Expr(call) {
			return nil, fmt.Errorf("call is nested in an expression")
		}
		form = fExpr
	case *ast.ReturnStmt:
		if len(s.Results) != 1 || ast.Unparen(s.Results[0]) != ast.Expr(call) {
			// nested in the returned expressions: usable when H has one result and nothing with a side effect is
			// evaluated before it within the statement
			tvc, ok := info.Types[call]
			if !ok || tvc.Type == nil {
				return nil, fmt.Errorf("call is nested in a return expression")
			}
			if _, isTuple := tvc.Type.(*types.Tuple); isTuple {
				return nil, fmt.Errorf("call is nested in a return expression")
			}
			early := false
			ast.Inspect(s, func(n ast.Node) bool {
				if n == nil || early {
					return false
				}
				if n.End() <= call.Pos() {
					switch x := n.(type) {
					case *ast.CallExpr, *ast.FuncLit:
						early = true
					case *ast.UnaryExpr:
						if x.Op == token.ARROW {
							early = true
						}
					}
				}
				if be, ok := n.(*ast.BinaryExpr); ok && (be.Op == token.LAND || be.Op == token.LOR) && be.Y.Pos() <= call.Pos() && call.End() <= be.Y.End() {
					early = true
				}
				return true
			})
			if early {
				return nil, fmt.Errorf("call is nested in a return expression")
			}
			form = fNestedReturn
			break
		}
		form = fReturn
	case *ast.AssignStmt:
		if len(s.Rhs) != 1 || ast.Unparen(s.Rhs[0]) != ast.Expr(call) || (s.Tok != token.DEFINE && s.Tok != token.ASSIGN) {
			return nil, fmt.Errorf("call is nested in an assignment")
		}
		form = fAssign
		lhs = s.Lhs
		assignTok = s.Tok
	default:
		return nil, fmt.Errorf("unsupported statement kind %T", stmt)
	}
	// is the statement the Init of an if?
	var ifStmt *ast.IfStmt
	if stmtIdx+1 < len(path) {
		if is, ok := path[stmtIdx+1].(*ast.IfStmt); ok && is.Init == stmt {
			ifStmt = is
			if form == fReturn {
				return nil, fmt.Errorf("unexpected return in if-init")
			}
			form = fIfInit
			stmtIdx++
		}
	}
	// the statement (or the if) must be an element of a statement list
	var list []ast.Stmt
	var outer ast.Stmt = stmt
	if ifStmt != nil {
		outer = ifStmt
	}
	if stmtIdx+1 >= len(path) {
		return nil, fmt.Errorf("no enclosing block")
	}
	switch parent := path[stmtIdx+1].(type) {
	case *ast.BlockStmt:
		list = parent.List
	case *ast.CaseClause:
		list = parent.Body
	case *ast.CommClause:
		list = parent.Body
	default:
		return nil, fmt.Errorf("statement is not an element of a block (%T)", parent)
	}
	idx := -1
	for i, s := range list {
		if s == outer {
			idx = i
		}
	}
	if idx < 0 {
		return nil, fmt.Errorf("statement not found in its block")
	}
	if usesDefer {
		// the helper's deferred calls run when the helper returns; inlined they run when the CALLER returns. That is the
		// same moment only for `return H(...)` (or a bare `H(...)`) as the last statement of the caller's body.
		tail := (form == fReturn || form == fExpr) && idx == len(list)-1 && stmtIdx+2 < len(path)
		if tail {
			switch fnNode := path[stmtIdx+2].(type) {
			case *ast.FuncDecl:
				tail = fnNode.Body == path[stmtIdx+1]
			case *ast.FuncLit:
				tail = fnNode.Body == path[stmtIdx+1]
			default:
				tail = false
			}
		}
		if !tail {
			return nil, fmt.Errorf("helper uses defer")
		}
	}

	// ---- fold a following `if <err> != nil { BODY }` into an assignment form
	nres := sig.Results().Len()
	lastIsError := nres > 0 && sig.Results().At(nres-1).Type().String() == "error"
	errName := ""
	var foldIf *ast.IfStmt
	nilTest := func(cond ast.Expr, name string) bool {
		be, ok := ast.Unparen(cond).(*ast.BinaryExpr)
		if !ok || be.Op != token.NEQ {
			return false
		}
		x, okx := ast.Unparen(be.X).(*ast.Ident)
		y, oky := ast.Unparen(be.Y).(*ast.Ident)
		return okx && oky && x.Name == name && y.Name == "nil"
	}
	if (form == fAssign || form == fIfInit) && lastIsError && len(lhs) == nres {
		if id, ok := lhs[nres-1].(*ast.Ident); ok && id.Name != "_" {
			errName = id.Name
		}
	}
	if form == fAssign && errName != "" && idx+1 < len(list) {
		if is, ok := list[idx+1].(*ast.IfStmt); ok && is.Init == nil && is.Else == nil && nilTest(is.Cond, errName) {
			foldIf = is
		}
	}
	ifCondIsNilTest := form == fIfInit && errName != "" && nilTest(ifStmt.Cond, errName)

	// ---- parameters: substitute or bind
	type binding struct {
		obj  types.Object
		text string // replacement text for uses
	}
	repl := map[types.Object]string{}
	var paramDecls []string
	assigned := map[types.Object]bool{}
	ast.Inspect(cfd.Body, func(n ast.Node) bool {
		switch x := n.(type) {
		case *ast.AssignStmt:
			for _, l := range x.Lhs {
				if id, ok := ast.Unparen(l).(*ast.Ident); ok {
					if o := info.Uses[id]; o != nil {
						assigned[o] = true
					}
				}
			}
		case *ast.IncDecStmt:
			if id, ok := ast.Unparen(x.X).(*ast.Ident); ok {
				if o := info.Uses[id]; o != nil {
					assigned[o] = true
				}
			}
		case *ast.UnaryExpr:
			if x.Op == token.AND {
				if id, ok := ast.Unparen(x.X).(*ast.Ident); ok {
					if o := info.Uses[id]; o != nil {
						assigned[o] = true
					}
				}
			}
		case *ast.RangeStmt:
			for _, e := range []ast.Expr{x.Key, x.Value} {
				if id, ok := e.(*ast.Ident); ok && x.Tok == token.ASSIGN {
					if o := info.Uses[id]; o != nil {
						assigned[o] = true
					}
				}
			}
		}
		return true
	})
	simple := func(e ast.Expr) bool {
		ok := true
		ast.Inspect(e, func(n ast.Node) bool {
			switch x := n.(type) {
			case *ast.CallExpr, *ast.FuncLit, *ast.CompositeLit, *ast.IndexExpr, *ast.SliceExpr, *ast.TypeAssertExpr:
				ok = false
			case *ast.UnaryExpr:
				if x.Op == token.ARROW {
					ok = false
				}
			}
			return ok
		})
		return ok
	}
	qual := func(pk *types.Package) string {
		if pk == p.Types {
			return ""
		}
		for _, im := range file.Imports {
			ipath := strings.Trim(im.Path.Value, `"`)
			if ipath == pk.Path() {
				if im.Name != nil {
					return im.Name.Name
				}
				return pk.Name()
			}
		}
		return pk.Name()
	}
	bind := func(v *types.Var, arg ast.Expr, argText string) {
		if v == nil {
			return
		}
		if v.Name() == "" || v.Name() == "_" {
			if arg != nil && !simple(arg) {
				paramDecls = append(paramDecls, "_ = "+argText)
			}
			return
		}
		if lit, isLit := ast.Unparen(arg).(*ast.FuncLit); arg != nil && isLit && !assigned[v] && onlyCalled(info, cfd.Body, v) {
			_ = lit
			repl[v] = "(" + argText + ")"
			return
		}
		if arg != nil && simple(arg) && !assigned[v] {
			t := argText
			if _, isIdent := ast.Unparen(arg).(*ast.Ident); !isIdent {
				if _, isSel := ast.Unparen(arg).(*ast.SelectorExpr); !isSel {
					if _, isLit := ast.Unparen(arg).(*ast.BasicLit); !isLit {
						t = "(" + argText + ")"
					}
				}
			}
			// an untyped constant argument must keep the parameter's type
			if tv, ok := info.Types[arg]; ok && tv.Value != nil {
				if b, ok := tv.Type.(*types.Basic); ok && b.Info()&types.IsUntyped != 0 {
					t = types.TypeString(v.Type(), qual) + "(" + argText + ")"
				}
			}
			if tv, ok := info.Types[arg]; ok && tv.IsNil() {
				t = "(" + types.TypeString(v.Type(), qual) + ")(nil)"
			}
			repl[v] = t
			return
		}
		name := v.Name() + suffix
		repl[v] = name
		paramDecls = append(paramDecls, fmt.Sprintf("var %s %s = %s", name, types.TypeString(v.Type(), qual), argText))
		paramDecls = append(paramDecls, "_ = "+name)
	}
	if sig.Recv() != nil {
		se, ok := ast.Unparen(call.Fun).(*ast.SelectorExpr)
		if !ok {
			return nil, fmt.Errorf("method helper not called through a selector")
		}
		// receiver: the object of the receiver parameter in the callee
		var recvObj *types.Var
		if cfd.Recv != nil && len(cfd.Recv.List) == 1 && len(cfd.Recv.List[0].Names) == 1 {
			recvObj, _ = info.Defs[cfd.Recv.List[0].Names[0]].(*types.Var)
		}
		if recvObj != nil {
			// only the plain case: receiver expression already has the receiver's type (no implicit & or *)
			tv, ok := info.Types[se.X]
			if !ok || !types.Identical(tv.Type, recvObj.Type()) {
				return nil, fmt.Errorf("implicit receiver conversion")
			}
			bind(recvObj, se.X, text(se.X))
		}
	}
	pi := 0
	for _, fld := range cfd.Type.Params.List {
		names := fld.Names
		if len(names) == 0 {
			names = []*ast.Ident{nil}
		}
		for _, nm := range names {
			if pi >= len(call.Args) {
				return nil, fmt.Errorf("argument count mismatch")
			}
			var v *types.Var
			if nm != nil {
				v, _ = info.Defs[nm].(*types.Var)
			}
			if v == nil {
				if !simple(call.Args[pi]) {
					paramDecls = append(paramDecls, "_ = "+text(call.Args[pi]))
				}
			} else {
				bind(v, call.Args[pi], text(call.Args[pi]))
			}
			pi++
		}
	}
	if pi != len(call.Args) {
		return nil, fmt.Errorf("argument count mismatch")
	}

	// ---- rename everything else the helper declares
	var resultNames []string
	named := false
	for _, fld := range resultFields(cfd) {
		for _, nm := range fld.Names {
			named = true
			if v, ok := info.Defs[nm].(*types.Var); ok && nm.Name != "_" {
				repl[v] = nm.Name + suffix
				resultNames = append(resultNames, nm.Name+suffix)
				paramDecls = append(paramDecls, fmt.Sprintf("var %s %s", nm.Name+suffix, types.TypeString(v.Type(), qual)), "_ = "+nm.Name+suffix)
			} else {
				return nil, fmt.Errorf("blank named result")
			}
		}
	}
	ast.Inspect(cfd.Body, func(n ast.Node) bool {
		if id, ok := n.(*ast.Ident); ok {
			if o := info.Defs[id]; o != nil && id.Name != "_" {
				if _, done := repl[o]; !done {
					repl[o] = id.Name + suffix
				}
			}
		}
		return true
	})
	// which returns of the helper hand back an error that is certainly not nil (a package-level sentinel, errors.New,
	// fmt.Errorf)? In source order, function literals skipped - the same order phase 2 visits them in.
	var retNonNil []bool
	ast.Inspect(cfd.Body, func(n ast.Node) bool {
		if _, ok := n.(*ast.FuncLit); ok {
			return false
		}
		ret, ok := n.(*ast.ReturnStmt)
		if !ok {
			return true
		}
		nn := false
		if len(ret.Results) > 0 && lastIsError {
			last := ast.Unparen(ret.Results[len(ret.Results)-1])
			switch x := last.(type) {
			case *ast.Ident:
				if v, ok := info.Uses[x].(*types.Var); ok && v.Pkg() != nil && v.Parent() == v.Pkg().Scope() {
					nn = true
				}
			case *ast.SelectorExpr:
				if v, ok := info.Uses[x.Sel].(*types.Var); ok && !v.IsField() && v.Pkg() != nil && v.Parent() == v.Pkg().Scope() {
					nn = true
				}
			case *ast.CallExpr:
				if fn, ok := calleeObj(info, x).(*types.Func); ok && fn.Pkg() != nil {
					full := fn.Pkg().Path() + "." + fn.Name()
					if full == "errors.New" || full == "fmt.Errorf" {
						nn = true
					}
				}
			}
		}
		retNonNil = append(retNonNil, nn)
		return true
	})
	// phase 1: the helper's body with identifiers replaced
	coff := func(pos token.Pos) int { return fset.Position(pos).Offset }
	bodyFrom, bodyTo := coff(cfd.Body.Lbrace)+1, coff(cfd.Body.Rbrace)
	var edits []textEdit
	ast.Inspect(cfd.Body, func(n ast.Node) bool {
		// keyed composite-literal fields and selector field names are Uses of fields: never in repl
		id, ok := n.(*ast.Ident)
		if !ok {
			return true
		}
		var o types.Object
		if d := info.Defs[id]; d != nil {
			o = d
		} else {
			o = info.Uses[id]
		}
		if o == nil {
			return true
		}
		if t, ok := repl[o]; ok {
			edits = append(edits, textEdit{coff(id.Pos()) - bodyFrom, coff(id.End()) - bodyFrom, t})
		}
		return true
	})
	// struct-literal shorthand is not an issue in Go (no field punning); labels: Defs covers label declarations, Uses
	// covers branch targets
	body1 := applyEdits(append([]byte{}, calleeContent[bodyFrom:bodyTo]...), edits)

	// ---- phase 2: returns -> continuations (purely syntactic, on the re-parsed text)
	wrapper := "package p\nfunc _() {\n" + string(body1) + "\n}\n"
	f2set := token.NewFileSet()
	f2, err := parser.ParseFile(f2set, "body.go", wrapper, parser.ParseComments)
	if err != nil {
		return nil, fmt.Errorf("re-parse of helper body: %v", err)
	}
	fd2 := f2.Decls[0].(*ast.FuncDecl)
	o2 := func(pos token.Pos) int { return f2set.Position(pos).Offset }
	t2 := func(n ast.Node) string { return wrapper[o2(n.Pos()):o2(n.End())] }
	endLabel := "inlEnd" + suffix
	usedGoto := false

	lhsText := make([]string, len(lhs))
	for i, l := range lhs {
		lhsText[i] = text(l)
	}
	var preDecls []string
	if form == fAssign && assignTok == token.DEFINE {
		for i, l := range lhs {
			id, ok := l.(*ast.Ident)
			if !ok || id.Name == "_" {
				continue
			}
			if v, ok := info.Defs[id].(*types.Var); ok {
				preDecls = append(preDecls, fmt.Sprintf("var %s %s", id.Name, types.TypeString(v.Type(), qual)), "_ = "+id.Name)
			}
			_ = i
		}
	}
	bodyText := ""
	elseText := ""
	condText := ""
	if form == fIfInit {
		bodyText = text(ifStmt.Body)
		condText = text(ifStmt.Cond)
		if ifStmt.Else != nil {
			elseText = text(ifStmt.Else)
		}
	}
	if foldIf != nil {
		bodyText = text(foldIf.Body)
	}

	// bodyWith renders a block of the caller with the variables bound by the call replaced by the (atomic) result
	// expressions of one return of the helper: `if err := H(); err != nil { return err }` becomes, at the helper's
	// `return errX`, the text `{ return errX }` - the shape the caller would have had without the helper.
	var lhsObjs []types.Object
	for _, l := range lhs {
		var o types.Object
		if id, ok := l.(*ast.Ident); ok && id.Name != "_" {
			if d := info.Defs[id]; d != nil {
				o = d
			} else {
				o = info.Uses[id]
			}
		}
		lhsObjs = append(lhsObjs, o)
	}
	atomic := func(t string) bool {
		if t == "nil" || isIdentText(t) {
			return true
		}
		e, err := parser.ParseExpr(t)
		if err != nil {
			return false
		}
		for {
			switch x := e.(type) {
			case *ast.BasicLit, *ast.Ident:
				return true
			case *ast.SelectorExpr: // pkg.Sentinel, v.field
				e = x.X
				continue
			}
			return false
		}
	}
	bodyWith := func(block ast.Node, res []string) (string, bool) {
		if block == nil || len(res) != len(lhsObjs) {
			return "", false
		}
		for _, r := range res {
			if !atomic(r) {
				return "", false
			}
		}
		// a bound variable that the block assigns to cannot be replaced by a value
		okAll := true
		ast.Inspect(block, func(n ast.Node) bool {
			check := func(e ast.Expr) {
				if id, ok := ast.Unparen(e).(*ast.Ident); ok {
					for _, o := range lhsObjs {
						if o != nil && info.Uses[id] == o {
							okAll = false
						}
					}
				}
			}
			switch x := n.(type) {
			case *ast.AssignStmt:
				for _, l := range x.Lhs {
					check(l)
				}
			case *ast.IncDecStmt:
				check(x.X)
			case *ast.UnaryExpr:
				if x.Op == token.AND {
					check(x.X)
				}
			}
			return okAll
		})
		if !okAll {
			return "", false
		}
		base := off(block.Pos())
		var ed []textEdit
		ast.Inspect(block, func(n ast.Node) bool {
			id, ok := n.(*ast.Ident)
			if !ok {
				return true
			}
			for i, o := range lhsObjs {
				if o != nil && info.Uses[id] == o {
					t := res[i]
					if t == "nil" {
						if v, ok := o.(*types.Var); ok {
							t = "(" + types.TypeString(v.Type(), qual) + ")(nil)"
						}
					}
					ed = append(ed, textEdit{off(id.Pos()) - base, off(id.End()) - base, t})
				}
			}
			return true
		})
		return string(applyEdits([]byte(text(block)), ed)), true
	}
	terminates := func(block *ast.BlockStmt) bool {
		if block == nil || len(block.List) == 0 {
			return false
		}
		switch x := block.List[len(block.List)-1].(type) {
		case *ast.ReturnStmt:
			return true
		case *ast.BranchStmt:
			return x.Tok == token.GOTO || x.Tok == token.CONTINUE || x.Tok == token.BREAK
		case *ast.ExprStmt:
			if c, ok := x.X.(*ast.CallExpr); ok {
				if id, ok := c.Fun.(*ast.Ident); ok && id.Name == "panic" {
					return true
				}
			}
		}
		return false
	}
	var callerBody *ast.BlockStmt
	if form == fIfInit {
		callerBody = ifStmt.Body
	}
	if foldIf != nil {
		callerBody = foldIf.Body
	}
	bodyTerminates := terminates(callerBody)

	// the continuation for one return statement
	var cont func(ret *ast.ReturnStmt, final bool, guardedNonNil bool) (string, error)
	cont = func(ret *ast.ReturnStmt, final bool, guardedNonNil bool) (string, error) {
		var res []string
		for _, r := range ret.Results {
			res = append(res, t2(r))
		}
		if len(res) == 0 && nres > 0 {
			if !named {
				return "", fmt.Errorf("bare return without named results")
			}
			res = append([]string{}, resultNames...)
		}
		leave := ""
		if !final {
			leave = "\ngoto " + endLabel
		}
		lastNil := len(ret.Results) > 0 && t2(ret.Results[len(ret.Results)-1]) == "nil" && len(ret.Results) == nres
		switch form {
		case fNestedReturn:
			if len(res) != 1 {
				return "", fmt.Errorf("result count mismatch")
			}
			e := res[0]
			if !atomic(e) {
				e = "(" + e + ")"
			}
			rs := stmt.(*ast.ReturnStmt)
			return string(content[off(rs.Pos()):off(call.Pos())]) + e + string(content[off(call.End()):off(rs.End())]), nil
		case fReturn:
			return "return " + strings.Join(res, ", "), nil
		case fExpr:
			var sb strings.Builder
			for _, r := range ret.Results {
				if e, err := parser.ParseExpr(t2(r)); err == nil && !simple(e) {
					sb.WriteString("_ = " + t2(r) + "\n")
				}
			}
			if !final {
				usedGoto = true
			}
			return "{\n" + sb.String() + strings.TrimPrefix(leave, "\n") + "\n}", nil
		case fAssign:
			if len(res) != len(lhs) && !(len(res) == 1 && len(lhs) > 1) {
				return "", fmt.Errorf("result count mismatch")
			}
			asg := strings.Join(lhsText, ", ") + " = " + strings.Join(res, ", ")
			allBlank := true
			for _, l := range lhsText {
				if l != "_" {
					allBlank = false
				}
			}
			if allBlank {
				asg = ""
				for _, r := range ret.Results {
					if e, err := parser.ParseExpr(t2(r)); err == nil && !simple(e) {
						asg += "_ = " + t2(r) + "\n"
					}
				}
			}
			if foldIf != nil {
				switch {
				case lastNil:
					// the caller's error branch cannot run
				case guardedNonNil:
					bt := bodyText
					if sub, ok := bodyWith(callerBody, res); ok {
						bt = sub
					}
					lv := leave
					if bodyTerminates {
						lv = ""
					} else if !final {
						usedGoto = true
					}
					return "{\n" + asg + "\n" + bt + lv + "\n}", nil
				default:
					if !final {
						usedGoto = true
					}
					return "{\n" + asg + "\nif " + errName + " != nil " + bodyText + leave + "\n}", nil
				}
			}
			if !final {
				usedGoto = true
			}
			return "{\n" + asg + leave + "\n}", nil
		case fIfInit:
			init := ""
			if len(lhs) > 0 {
				if len(res) != len(lhs) && !(len(res) == 1 && len(lhs) > 1) {
					return "", fmt.Errorf("result count mismatch")
				}
				init = strings.Join(lhsText, ", ") + " " + assignTok.String() + " " + strings.Join(res, ", ")
			}
			if !final {
				usedGoto = true
			}
			if ifCondIsNilTest && lastNil {
				// cond is false: only the else branch (if any) runs
				if elseText != "" {
					return "{\n" + declsOnly(init, assignTok, lhsText, res) + "\n" + elseText + leave + "\n}", nil
				}
				pre := ""
				for i, r := range ret.Results {
					if i == len(ret.Results)-1 {
						break
					}
					if e, err := parser.ParseExpr(t2(r)); err == nil && !simple(e) {
						pre += "_ = " + t2(r) + "\n"
					}
				}
				return "{\n" + pre + strings.TrimPrefix(leave, "\n") + "\n}", nil
			}
			if ifCondIsNilTest && guardedNonNil {
				lv := leave
				if bodyTerminates {
					lv = ""
				}
				if sub, ok := bodyWith(callerBody, res); ok {
					return sub + lv, nil
				}
				return "{\n" + init + "\n" + blankUses(lhsText) + bodyText + lv + "\n}", nil
			}
			s := "if " + init + "; " + condText + " " + bodyText
			if init == "" {
				s = "if " + condText + " " + bodyText
			}
			if elseText != "" {
				s += " else " + elseText
			}
			return "{\n" + s + leave + "\n}", nil
		}
		return "", fmt.Errorf("unknown form")
	}

	retOrd := map[*ast.ReturnStmt]int{}
	ast.Inspect(fd2.Body, func(n ast.Node) bool {
		if _, ok := n.(*ast.FuncLit); ok {
			return false
		}
		if r, ok := n.(*ast.ReturnStmt); ok {
			retOrd[r] = len(retOrd)
		}
		return true
	})
	var edits2 []textEdit
	var walkErr error
	// find returns outside function literals, knowing their enclosing if-condition
	var visit func(list []ast.Stmt, top bool, guardIdent string)
	var visitStmt func(s ast.Stmt, isLastTop bool, guardIdent string)
	assignsName := func(n ast.Node, name string) bool {
		if name == "" {
			return false
		}
		found := false
		ast.Inspect(n, func(m ast.Node) bool {
			if as, ok := m.(*ast.AssignStmt); ok {
				for _, l := range as.Lhs {
					if id, ok := l.(*ast.Ident); ok && id.Name == name {
						found = true
					}
				}
			}
			return !found
		})
		return found
	}
	visit = func(list []ast.Stmt, top bool, guardIdent string) {
		g := guardIdent
		for i, s := range list {
			visitStmt(s, top && i == len(list)-1, g)
			if assignsName(s, g) {
				g = "" // the guarded variable was given a new value: nothing is known about it behind this statement
			}
		}
	}
	visitStmt = func(s ast.Stmt, isLastTop bool, guardIdent string) {
		switch x := s.(type) {
		case *ast.ReturnStmt:
			guarded := false
			if len(x.Results) > 0 {
				if id, ok := ast.Unparen(x.Results[len(x.Results)-1]).(*ast.Ident); ok && id.Name == guardIdent && guardIdent != "" {
					guarded = true
				}
			}
			if i, ok := retOrd[x]; ok && i < len(retNonNil) && retNonNil[i] {
				guarded = true // a sentinel / freshly made error: certainly not nil
			}
			t, err := cont(x, isLastTop, guarded)
			if err != nil {
				walkErr = err
				return
			}
			edits2 = append(edits2, textEdit{o2(x.Pos()), o2(x.End()), t})
		case *ast.BlockStmt:
			visit(x.List, false, guardIdent)
		case *ast.IfStmt:
			g := guardIdent
			if x.Init != nil && assignsName(x.Init, g) {
				g = ""
			}
			thenG := g
			if be, ok := ast.Unparen(x.Cond).(*ast.BinaryExpr); ok && be.Op == token.NEQ {
				if a, ok := ast.Unparen(be.X).(*ast.Ident); ok {
					if b, ok := ast.Unparen(be.Y).(*ast.Ident); ok && b.Name == "nil" {
						thenG = a.Name
					}
				}
			}
			visit(x.Body.List, false, thenG)
			if x.Else != nil {
				visitStmt(x.Else, false, g)
			}
		case *ast.ForStmt:
			visit(x.Body.List, false, "")
		case *ast.RangeStmt:
			visit(x.Body.List, false, "")
		case *ast.SwitchStmt:
			for _, c := range x.Body.List {
				visit(c.(*ast.CaseClause).Body, false, guardIdent)
			}
		case *ast.TypeSwitchStmt:
			for _, c := range x.Body.List {
				visit(c.(*ast.CaseClause).Body, false, guardIdent)
			}
		case *ast.SelectStmt:
			for _, c := range x.Body.List {
				visit(c.(*ast.CommClause).Body, false, "")
			}
		case *ast.LabeledStmt:
			visitStmt(x.Stmt, isLastTop, guardIdent)
		}
	}
	visit(fd2.Body.List, true, "")
	if walkErr != nil {
		return nil, walkErr
	}
	body2 := applyEdits([]byte(wrapper), edits2)
	usedGoto = strings.Contains(string(body2), "goto "+endLabel)
	// cut the wrapper off again
	b2 := string(body2)
	start := strings.Index(b2, "{\n") + 2
	end := strings.LastIndex(b2, "\n}")
	if start < 2 || end < start {
		return nil, fmt.Errorf("wrapper lost")
	}
	inner := b2[start:end]

	// does the helper fall off its end without a return (no results)? then control simply continues
	var sb strings.Builder
	for _, d := range preDecls {
		sb.WriteString(d + "\n")
	}
	sb.WriteString("{\n")
	for _, d := range paramDecls {
		sb.WriteString(d + "\n")
	}
	sb.WriteString(inner)
	sb.WriteString("\n}\n")
	if usedGoto {
		sb.WriteString(endLabel + ":\n")
		// a label needs a statement; keep one that is harmless in any position
		sb.WriteString("{\n}\n")
	}
	// replace the statement (and the folded if) in the caller
	from := off(outer.Pos())
	to := off(outer.End())
	if foldIf != nil {
		to = off(foldIf.End())
	}
	out := append([]byte{}, content[:from]...)
	out = append(out, []byte(sb.String())...)
	out = append(out, content[to:]...)
	return out, nil
}

func resultFields(fd *ast.FuncDecl) []*ast.Field {
	if fd.Type.Results == nil {
		return nil
	}
	return fd.Type.Results.List
}

// declsOnly keeps the variables of an if-init alive for the else branch: `a, err := x, nil` as a statement.
func declsOnly(init string, tok token.Token, lhs, res []string) string {
	if init == "" {
		return ""
	}
	return init + "\n" + blankUses(lhs)
}

func blankUses(lhs []string) string {
	s := ""
	for _, l := range lhs {
		if l != "_" && isIdentText(l) {
			s += "_ = " + l + "\n"
		}
	}
	return s
}

func isIdentText(s string) bool {
	if s == "" {
		return false
	}
	for i, r := range s {
		if !(r == '_' || r >= 'a' && r <= 'z' || r >= 'A' && r <= 'Z' || (i > 0 && r >= '0' && r <= '9')) {
			return false
		}
	}
	return true
}

// hoistCall rewrites a statement in which the helper call is nested inside a larger expression,
//
//	return outer(H(a, b), c), nil      =>      hv1 := H(a, b); return outer(hv1, c), nil
//
// so that the call becomes a whole statement the inliners can handle. Only when nothing with a possible side effect
// is evaluated before the call within that statement (no call, receive, or function literal lies entirely before it),
// the helper has exactly one result, and the statement is a return, assignment or expression statement in a block.
func hoistCall(p *packages.Package, file *ast.File, call *ast.CallExpr, content []byte, k int) ([]byte, error) {
	info := p.TypesInfo
	fset := p.Fset
	off := func(pos token.Pos) int { return fset.Position(pos).Offset }
	tv, ok := info.Types[call]
	if !ok || tv.Type == nil {
		return nil, fmt.Errorf("untyped call")
	}
	if _, isTuple := tv.Type.(*types.Tuple); isTuple {
		return nil, fmt.Errorf("multi-valued helper nested in an expression")
	}
	path, _ := astutil.PathEnclosingInterval(file, call.Pos(), call.End())
	var stmt ast.Stmt
	idx := -1
	for i, n := range path {
		if s, ok := n.(ast.Stmt); ok {
			stmt = s
			idx = i
			break
		}
		switch n.(type) {
		case *ast.FuncLit:
			return nil, fmt.Errorf("call inside a function literal expression")
		case *ast.BinaryExpr:
			if be := n.(*ast.BinaryExpr); be.Op == token.LAND || be.Op == token.LOR {
				if be.Y.Pos() <= call.Pos() && call.End() <= be.Y.End() {
					return nil, fmt.Errorf("call is evaluated conditionally (&&/||)")
				}
			}
		}
	}
	switch stmt.(type) {
	case *ast.ReturnStmt, *ast.AssignStmt, *ast.ExprStmt:
	default:
		return nil, fmt.Errorf("cannot hoist out of %T", stmt)
	}
	if idx+1 >= len(path) {
		return nil, fmt.Errorf("no enclosing block")
	}
	switch path[idx+1].(type) {
	case *ast.BlockStmt, *ast.CaseClause, *ast.CommClause:
	default:
		return nil, fmt.Errorf("statement is not an element of a block")
	}
	early := false
	ast.Inspect(stmt, func(n ast.Node) bool {
		if n == nil || early {
			return false
		}
		if n.End() <= call.Pos() {
			switch x := n.(type) {
			case *ast.CallExpr, *ast.FuncLit:
				early = true
			case *ast.UnaryExpr:
				if x.Op == token.ARROW {
					early = true
				}
			}
		}
		return true
	})
	if early {
		return nil, fmt.Errorf("something with a possible side effect is evaluated before the call")
	}
	name := fmt.Sprintf("hv%d", k)
	callText := string(content[off(call.Pos()):off(call.End())])
	var out bytes.Buffer
	out.Write(content[:off(stmt.Pos())])
	out.WriteString(name + " := " + callText + "\n")
	out.Write(content[off(stmt.Pos()):off(call.Pos())])
	out.WriteString(name)
	out.Write(content[off(call.End()):])
	return out.Bytes(), nil
}

// flattenBlocks splices bare blocks that declare nothing into their parent statement list (the continuation blocks the
// statement inliner emits), so that `if err != nil { { return err } }` reads `if err != nil { return err }` again.
func flattenBlocks(filename string, src []byte) ([]byte, error) {
	fset := token.NewFileSet()
	f, err := parser.ParseFile(fset, filename, src, parser.ParseComments)
	if err != nil {
		return nil, err
	}
	declares := func(b *ast.BlockStmt) bool {
		for _, s := range b.List {
			switch x := s.(type) {
			case *ast.DeclStmt, *ast.LabeledStmt:
				return true
			case *ast.AssignStmt:
				if x.Tok == token.DEFINE {
					return true
				}
			}
		}
		return false
	}
	var flat func(list []ast.Stmt) []ast.Stmt
	flat = func(list []ast.Stmt) []ast.Stmt {
		var out []ast.Stmt
		for _, s := range list {
			if b, ok := s.(*ast.BlockStmt); ok && !declares(b) {
				out = append(out, flat(b.List)...)
				continue
			}
			out = append(out, s)
		}
		return out
	}
	ast.Inspect(f, func(n ast.Node) bool {
		switch x := n.(type) {
		case *ast.BlockStmt:
			x.List = flat(x.List)
		case *ast.CaseClause:
			x.Body = flat(x.Body)
		case *ast.CommClause:
			x.Body = flat(x.Body)
		}
		return true
	})
	// an empty statement list after a label is fine (`L: }`), but a label must still label something: keep `{}` there
	ast.Inspect(f, func(n ast.Node) bool {
		if l, ok := n.(*ast.LabeledStmt); ok && l.Stmt == nil {
			l.Stmt = &ast.EmptyStmt{}
		}
		return true
	})
	var buf bytes.Buffer
	if err := format.Node(&buf, fset, f); err != nil {
		return nil, err
	}
	return buf.Bytes(), nil
}

// deferWrap rewrites `defer H(args)` into `defer func() { H(args) }()`. A deferred call evaluates its operands at the
// defer statement, the wrapped form at function exit; the rewrite is made only when that cannot matter: every operand
// (and the receiver) is the address of a variable, a literal or constant, or a parameter/receiver of the enclosing
// function that is never assigned.
func deferWrap(p *packages.Package, file *ast.File, call *ast.CallExpr, content []byte) ([]byte, error) {
	info := p.TypesInfo
	fset := p.Fset
	off := func(pos token.Pos) int { return fset.Position(pos).Offset }
	path, _ := astutil.PathEnclosingInterval(file, call.Pos(), call.End())
	var stmtCall *ast.CallExpr
	var encl *ast.FuncDecl
	for _, n := range path {
		if d, ok := n.(*ast.DeferStmt); ok && stmtCall == nil {
			stmtCall = d.Call
		}
		// `go H(args)` likewise: the operands are evaluated when the goroutine is started, the wrapped form evaluates
		// them inside it
		if g, ok := n.(*ast.GoStmt); ok && stmtCall == nil {
			stmtCall = g.Call
		}
		if fd, ok := n.(*ast.FuncDecl); ok {
			encl = fd
		}
	}
	if stmtCall == nil || stmtCall != call || encl == nil {
		return nil, fmt.Errorf("not the call of a defer or go statement")
	}
	assigned := map[types.Object]bool{}
	ast.Inspect(encl.Body, func(n ast.Node) bool {
		switch x := n.(type) {
		case *ast.AssignStmt:
			for _, l := range x.Lhs {
				if id, ok := ast.Unparen(l).(*ast.Ident); ok {
					if o := info.Uses[id]; o != nil {
						assigned[o] = true
					}
				}
			}
		case *ast.IncDecStmt:
			if id, ok := ast.Unparen(x.X).(*ast.Ident); ok {
				if o := info.Uses[id]; o != nil {
					assigned[o] = true
				}
			}
		case *ast.UnaryExpr:
			if x.Op == token.AND {
				if id, ok := ast.Unparen(x.X).(*ast.Ident); ok {
					if o := info.Uses[id]; o != nil {
						assigned[o] = true
					}
				}
			}
		}
		return true
	})
	stable := func(e ast.Expr) bool {
		e = ast.Unparen(e)
		if tv, ok := info.Types[e]; ok && tv.Value != nil {
			return true
		}
		switch x := e.(type) {
		case *ast.BasicLit:
			return true
		case *ast.UnaryExpr:
			if x.Op == token.AND {
				_, ok := ast.Unparen(x.X).(*ast.Ident)
				return ok
			}
		case *ast.Ident:
			// a parameter or a local that is defined once and never written again (no `=`, `++`, no address taken)
			o := info.Uses[x]
			if v, ok := o.(*types.Var); ok && !v.IsField() && v.Pkg() != nil && v.Parent() != v.Pkg().Scope() {
				return !assigned[o]
			}
			return false
		}
		return false
	}
	for _, a := range call.Args {
		if !stable(a) {
			return nil, fmt.Errorf("operand %s may change between the defer statement and function exit", types.ExprString(a))
		}
	}
	if se, ok := ast.Unparen(call.Fun).(*ast.SelectorExpr); ok {
		if _, isPkg := info.Uses[firstIdent(se.X)].(*types.PkgName); !isPkg && !stable(se.X) {
			return nil, fmt.Errorf("receiver %s may change between the defer statement and function exit", types.ExprString(se.X))
		}
	}
	callText := string(content[off(call.Pos()):off(call.End())])
	return applyEdits(content, []textEdit{{off(call.Pos()), off(call.End()), "func() {\n" + callText + "\n}()"}}), nil
}

func firstIdent(e ast.Expr) *ast.Ident {
	for {
		switch x := ast.Unparen(e).(type) {
		case *ast.Ident:
			return x
		case *ast.SelectorExpr:
			e = x.X
		default:
			return nil
		}
	}
}

// onlyCalled: every use of v in body is the function operand of a call, and there are at most two of them.
func onlyCalled(info *types.Info, body ast.Node, v *types.Var) bool {
	calls, uses := 0, 0
	ast.Inspect(body, func(n ast.Node) bool {
		switch x := n.(type) {
		case *ast.CallExpr:
			if id, ok := ast.Unparen(x.Fun).(*ast.Ident); ok && info.Uses[id] == types.Object(v) {
				calls++
			}
		case *ast.Ident:
			if info.Uses[x] == types.Object(v) {
				uses++
			}
		}
		return true
	})
	return uses == calls && calls >= 1 && calls <= 2
}
