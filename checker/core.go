package main

import (
	"encoding/json"
	"fmt"
	"go/ast"
	"go/token"
	"go/types"
	"os"
	"path/filepath"
	"sort"
	"strings"
	"time"

	"golang.org/x/tools/go/packages"
	"golang.org/x/tools/go/ssa"
)

const modPath = "github.com/pojntfx/stfs"

type Verdict string

const (
	Discharged Verdict = "discharged"
	Violated   Verdict = "violated"
	Undecided  Verdict = "undecided"
)

// Obligation is one instance of one rule on one construct of /repo.
type Obligation struct {
	Rule       string  `json:"rule"`
	Key        string  `json:"key"` // rule|pkg|func|construct – never a line number
	Pos        string  `json:"pos"` // file:line, for the reader only
	Verdict    Verdict `json:"verdict"`
	Detail     string  `json:"detail"`
	Nontrivial bool    `json:"nontrivial"` // verdict needed a path / flow / reachability argument
}

// FuncInfo is a function declaration or a function literal of the repository.
type FuncInfo struct {
	Pkg   *packages.Package
	Decl  *ast.FuncDecl // nil for literals
	Lit   *ast.FuncLit  // nil for declarations
	Obj   *types.Func   // nil for literals
	Outer *FuncInfo     // enclosing function for literals
	Name  string        // "(*T).M", "F", "F$lit1"
	calls []*CallSite
	nlit  int
}

func (f *FuncInfo) Body() *ast.BlockStmt {
	if f.Decl != nil {
		return f.Decl.Body
	}
	return f.Lit.Body
}

func (f *FuncInfo) Type() *ast.FuncType {
	if f.Decl != nil {
		return f.Decl.Type
	}
	return f.Lit.Type
}

func (f *FuncInfo) Node() ast.Node {
	if f.Decl != nil {
		return f.Decl
	}
	return f.Lit
}

func (f *FuncInfo) RelPkg() string {
	return strings.TrimPrefix(strings.TrimPrefix(f.Pkg.PkgPath, modPath), "/")
}

// CallSite is a resolved call expression inside a FuncInfo (not inside nested literals).
type CallSite struct {
	In     *FuncInfo
	Call   *ast.CallExpr
	Callee types.Object // *types.Func (static / interface method), *types.Var (func-valued field or local), *types.Builtin, or nil
	Target *FuncInfo    // repository function this statically resolves to (decl, or literal bound to a local), or nil
	Defer  bool
	Go     bool
}

type Ctx struct {
	Prop    string
	Tier    string
	RepoDir string
	Variant string // "" for the default build, else e.g. "windows"
	Pkgs    []*packages.Package
	All     map[string]*packages.Package // every loaded package incl. dependencies
	Fset    *token.FileSet
	byPath  map[string]*packages.Package

	Funcs      []*FuncInfo
	byObj      map[*types.Func]*FuncInfo
	Norm       *normResult         // helper inlining applied before analysis (nil or empty: the text is analysed as is)
	statHelper map[*types.Func]int // C02: lookup helpers (see statSubject)
	byLit      map[*ast.FuncLit]*FuncInfo
	litOfVar   map[*types.Var]*FuncInfo // local variable bound exactly once to a literal

	prog    *ssa.Program
	ssaPkgs []*ssa.Package

	Obls       []Obligation
	Unresolved []string
	Notes      []string
	floors     map[string]int
	explain    map[string]string
	start      time.Time
}

func (c *Ctx) pos(p token.Pos) string {
	if !p.IsValid() {
		return "?"
	}
	pp := c.Fset.Position(p)
	rel, err := filepath.Rel(c.RepoDir, pp.Filename)
	if err != nil {
		rel = pp.Filename
	}
	return fmt.Sprintf("%s:%d", rel, pp.Line)
}

func (c *Ctx) add(rule string, fn *FuncInfo, construct string, p token.Pos, v Verdict, nontrivial bool, detail string, a ...interface{}) {
	pkg, name := "-", "-"
	if fn != nil {
		pkg, name = fn.RelPkg(), fn.Name
	}
	key := fmt.Sprintf("%s|%s|%s|%s", rule, pkg, name, construct)
	if c.Variant != "" {
		detail = "[" + c.Variant + "] " + detail
	}
	c.Obls = append(c.Obls, Obligation{Rule: rule, Key: key, Pos: c.pos(p), Verdict: v, Detail: fmt.Sprintf(detail, a...), Nontrivial: nontrivial})
}

func (c *Ctx) ok(rule string, fn *FuncInfo, construct string, p token.Pos, nontrivial bool, detail string, a ...interface{}) {
	c.add(rule, fn, construct, p, Discharged, nontrivial, detail, a...)
}
func (c *Ctx) bad(rule string, fn *FuncInfo, construct string, p token.Pos, detail string, a ...interface{}) {
	c.add(rule, fn, construct, p, Violated, true, detail, a...)
}
func (c *Ctx) undecided(rule string, fn *FuncInfo, construct string, p token.Pos, detail string, a ...interface{}) {
	c.add(rule, fn, construct, p, Undecided, true, detail, a...)
}

// verdictIf records discharged when cond holds, violated otherwise.
func (c *Ctx) verdictIf(cond bool, rule string, fn *FuncInfo, construct string, p token.Pos, okDetail, badDetail string) {
	if cond {
		c.ok(rule, fn, construct, p, true, "%s", okDetail)
	} else {
		c.bad(rule, fn, construct, p, "%s", badDetail)
	}
}

func (c *Ctx) unresolved(what string, a ...interface{}) {
	c.Unresolved = append(c.Unresolved, fmt.Sprintf(what, a...))
}

func (c *Ctx) floor(rule string, n int, explain string) {
	if c.floors == nil {
		c.floors = map[string]int{}
		c.explain = map[string]string{}
	}
	c.floors[rule] = n
	c.explain[rule] = explain
}

func (c *Ctx) note(s string, a ...interface{}) { c.Notes = append(c.Notes, fmt.Sprintf(s, a...)) }

// ---- lookups (anchors) ----

func (c *Ctx) pkg(rel string) *packages.Package {
	p := c.byPath[modPath+"/"+rel]
	if rel == "" {
		p = c.byPath[modPath]
	}
	if p == nil {
		c.unresolved("package %s", rel)
	}
	return p
}

// fn finds a function by package-relative path and name: "Index", "(*Operations).Update".
func (c *Ctx) fn(rel, name string) *FuncInfo {
	for _, f := range c.Funcs {
		if f.Decl != nil && f.RelPkg() == rel && f.Name == name {
			return f
		}
	}
	c.unresolved("function %s.%s", rel, name)
	return nil
}

func (c *Ctx) fnOpt(rel, name string) *FuncInfo {
	for _, f := range c.Funcs {
		if f.Decl != nil && f.RelPkg() == rel && f.Name == name {
			return f
		}
	}
	return nil
}

func (c *Ctx) namedType(rel, name string) *types.Named {
	p := c.byPath[modPath+"/"+rel]
	if p == nil {
		c.unresolved("package %s (for type %s)", rel, name)
		return nil
	}
	o := p.Types.Scope().Lookup(name)
	if tn, ok := o.(*types.TypeName); ok {
		if n, ok := tn.Type().(*types.Named); ok {
			return n
		}
	}
	c.unresolved("type %s.%s", rel, name)
	return nil
}

// field returns the field object of a struct type declared in the repository.
func (c *Ctx) field(rel, typ, field string) *types.Var {
	n := c.namedType(rel, typ)
	if n == nil {
		return nil
	}
	st, ok := n.Underlying().(*types.Struct)
	if !ok {
		c.unresolved("type %s.%s is not a struct", rel, typ)
		return nil
	}
	for i := 0; i < st.NumFields(); i++ {
		if st.Field(i).Name() == field {
			return st.Field(i)
		}
	}
	c.unresolved("field %s.%s.%s", rel, typ, field)
	return nil
}

func (c *Ctx) ifaceMethod(rel, typ, method string) *types.Func {
	n := c.namedType(rel, typ)
	if n == nil {
		return nil
	}
	it, ok := n.Underlying().(*types.Interface)
	if !ok {
		c.unresolved("type %s.%s is not an interface", rel, typ)
		return nil
	}
	for i := 0; i < it.NumMethods(); i++ {
		if it.Method(i).Name() == method {
			return it.Method(i)
		}
	}
	c.unresolved("interface method %s.%s.%s", rel, typ, method)
	return nil
}

func (c *Ctx) constObj(rel, name string) *types.Const {
	p := c.byPath[modPath+"/"+rel]
	if p == nil {
		c.unresolved("package %s (for const %s)", rel, name)
		return nil
	}
	if k, ok := p.Types.Scope().Lookup(name).(*types.Const); ok {
		return k
	}
	c.unresolved("const %s.%s", rel, name)
	return nil
}

// extObj looks up an exported object in any loaded (dependency) package.
func (c *Ctx) extObj(path, name string) types.Object {
	p := c.All[path]
	if p == nil || p.Types == nil {
		c.unresolved("dependency package %s (for %s)", path, name)
		return nil
	}
	o := p.Types.Scope().Lookup(name)
	if o == nil {
		c.unresolved("object %s.%s", path, name)
	}
	return o
}

// extField looks up a field of a struct type declared in a dependency package.
func (c *Ctx) extField(path, typ, field string) *types.Var {
	o := c.extObj(path, typ)
	if o == nil {
		return nil
	}
	st, ok := o.Type().Underlying().(*types.Struct)
	if !ok {
		c.unresolved("%s.%s is not a struct", path, typ)
		return nil
	}
	for i := 0; i < st.NumFields(); i++ {
		if st.Field(i).Name() == field {
			return st.Field(i)
		}
	}
	c.unresolved("field %s.%s.%s", path, typ, field)
	return nil
}

// ---- output ----

type KnownFinding struct {
	Property string `json:"property"`
	Key      string `json:"key"`
	Status   string `json:"status"` // "known" or "fixed"
	Commit   string `json:"commit,omitempty"`
	What     string `json:"what"`
}

func loadKnown(verifDir string) ([]KnownFinding, error) {
	b, err := os.ReadFile(filepath.Join(verifDir, "known_findings.json"))
	if err != nil {
		if os.IsNotExist(err) {
			return nil, nil
		}
		return nil, err
	}
	var k []KnownFinding
	if err := json.Unmarshal(b, &k); err != nil {
		return nil, err
	}
	return k, nil
}

type Evidence struct {
	PropertyID  string                 `json:"property_id"`
	Tier        string                 `json:"tier"`
	Seed        int                    `json:"seed"`
	Level       string                 `json:"level"`
	Coverage    map[string]interface{} `json:"coverage"`
	Assumptions []string               `json:"assumptions"`
	WallS       float64                `json:"wall_s"`
	Violations  int                    `json:"violations"`
}

type ruleSummary struct {
	Rule       string `json:"rule"`
	Instances  int    `json:"instances"`
	Floor      int    `json:"floor"`
	Discharged int    `json:"discharged"`
	Violated   int    `json:"violated"`
	Undecided  int    `json:"undecided"`
	What       string `json:"what"`
}

// finish prints the verdict, writes evidence and replay files and returns the exit code.
func finish(verifDir string, prop *Property, tier string, seed int, obls []Obligation, unresolved, notes []string, floors map[string]int, explain map[string]string, extra map[string]interface{}, start time.Time) int {
	known, err := loadKnown(verifDir)
	if err != nil {
		fmt.Printf("BROKEN: cannot read known_findings.json: %v\n", err)
		return 2
	}
	knownKeys := map[string]KnownFinding{}
	for _, k := range known {
		if k.Property == prop.ID && k.Status == "known" {
			knownKeys[k.Key] = k
		}
	}

	// de-duplicate by key (variants re-derive the same obligations); worst verdict wins
	rank := map[Verdict]int{Discharged: 0, Undecided: 1, Violated: 2}
	byKey := map[string]int{}
	var merged []Obligation
	for _, o := range obls {
		if i, ok := byKey[o.Key]; ok {
			if rank[o.Verdict] > rank[merged[i].Verdict] {
				merged[i] = o
			}
			continue
		}
		byKey[o.Key] = len(merged)
		merged = append(merged, o)
	}
	obls = merged
	sort.SliceStable(obls, func(i, j int) bool { return obls[i].Key < obls[j].Key })

	sums := map[string]*ruleSummary{}
	var ruleNames []string
	for r, f := range floors {
		sums[r] = &ruleSummary{Rule: r, Floor: f, What: explain[r]}
		ruleNames = append(ruleNames, r)
	}
	nDis, nontriv := 0, 0
	for _, o := range obls {
		s := sums[o.Rule]
		if s == nil {
			s = &ruleSummary{Rule: o.Rule}
			sums[o.Rule] = s
			ruleNames = append(ruleNames, o.Rule)
		}
		s.Instances++
		switch o.Verdict {
		case Discharged:
			s.Discharged++
			nDis++
		case Violated:
			s.Violated++
		default:
			s.Undecided++
		}
		if o.Nontrivial {
			nontriv++
		}
	}
	sort.Strings(ruleNames)

	exit := 0
	fmt.Printf("property %s tier=%s: %d obligations over %d rules\n", prop.ID, tier, len(obls), len(ruleNames))
	var sumList []ruleSummary
	for _, r := range ruleNames {
		s := sums[r]
		sumList = append(sumList, *s)
		fmt.Printf("  rule %-40s instances=%-4d floor=%-4d discharged=%-4d violated=%-3d undecided=%-3d\n", r, s.Instances, s.Floor, s.Discharged, s.Violated, s.Undecided)
		if s.Instances < half(s.Floor) {
			fmt.Printf("BROKEN: rule %s matched %d instances, fewer than half of the %d confirmed by hand (a rule that matches too little passes vacuously)\n", r, s.Instances, s.Floor)
			exit = 2
		}
	}
	for _, u := range unresolved {
		fmt.Printf("UNRESOLVED anchor=%s\n", u)
		exit = 2
	}

	replayDir := filepath.Join(verifDir, "evidence", "replay")
	os.MkdirAll(replayDir, 0o755)
	old, _ := filepath.Glob(filepath.Join(replayDir, prop.ID+"-*.json"))
	for _, f := range old {
		os.Remove(f)
	}
	violations, knownHit := 0, 0
	n := 0
	var bad []Obligation
	for _, o := range obls {
		if o.Verdict == Discharged {
			continue
		}
		if k, ok := knownKeys[o.Key]; ok && o.Verdict == Violated {
			fmt.Printf("KNOWN-FINDING: property=%s %s at %s: %s\n", prop.ID, o.Key, o.Pos, k.What)
			knownHit++
			delete(knownKeys, o.Key)
			continue
		}
		n++
		violations++
		bad = append(bad, o)
		path := filepath.Join(replayDir, fmt.Sprintf("%s-%d.json", prop.ID, n))
		b, _ := json.MarshalIndent(map[string]interface{}{"property": prop.ID, "obligation": o}, "", " ")
		os.WriteFile(path, b, 0o644)
		fmt.Printf("  %s %s at %s: %s\n", strings.ToUpper(string(o.Verdict)), o.Key, o.Pos, o.Detail)
		fmt.Printf("VIOLATION property=%s replay=%s\n", prop.ID, path)
		if exit == 0 {
			exit = 1
		}
	}
	if violations > 0 && exit == 2 {
		exit = 1
	}
	for k := range knownKeys {
		fmt.Printf("  note: known finding %s no longer reported (repaired or construct changed)\n", k)
	}

	// samples: every non-discharged obligation plus a spread of discharged ones
	var samples []Obligation
	samples = append(samples, bad...)
	seen := map[string]int{}
	for _, o := range obls {
		if o.Verdict == Discharged && seen[o.Rule] < 3 {
			seen[o.Rule]++
			samples = append(samples, o)
		}
	}
	cov := map[string]interface{}{
		"explanation":         prop.Explanation,
		"obligations":         len(obls),
		"discharged":          nDis,
		"evaluations":         len(obls),
		"distinct_nontrivial": nontriv,
		"rule":                "one obligation per (rule, package, function, construct) instance found in /repo's type-checked source on this run; distinct = distinct keys; non-trivial = the verdict needed a control-flow, data-flow, call-graph or table-agreement argument (not a bare existence check)",
		"samples":             samples,
		"rules":               sumList,
		"known_findings_hit":  knownHit,
		"unresolved_anchors":  unresolved,
		"notes":               notes,
		"checker_cmd":         fmt.Sprintf("bin/stfscheck -p %s -tier %s", prop.ID, tier),
		"trusted_base":        []string{"go/types", "go/packages", "go/cfg", "rule tables and function inventory in /verif/checker", "the inliners of the normalisation pass (x/tools refactor/inline copied under checker/xti, checker/stmtinline.go; every step re-type-checked)", "dependencies treated as opaque"},
		"exhaustive":          true,
		"does_not_decide":     prop.NotDecided,
	}
	for k, v := range extra {
		cov[k] = v
	}
	ev := Evidence{PropertyID: prop.ID, Tier: tier, Seed: seed, Level: "other", Coverage: cov,
		Assumptions: prop.Assumptions, WallS: time.Since(start).Seconds(), Violations: violations}
	b, _ := json.MarshalIndent(ev, "", " ")
	os.MkdirAll(filepath.Join(verifDir, "evidence"), 0o755)
	if err := os.WriteFile(filepath.Join(verifDir, "evidence", prop.ID+".json"), b, 0o644); err != nil {
		fmt.Printf("BROKEN: cannot write evidence: %v\n", err)
		return 2
	}
	fmt.Printf("result %s: obligations=%d discharged=%d violations=%d known=%d exit=%d (%.1fs)\n", prop.ID, len(obls), nDis, violations, knownHit, exit, time.Since(start).Seconds())
	return exit
}

// half: instance floors tolerate de-duplicating refactors (two copies merged into one helper) but not a dead matcher.
func half(n int) int {
	if n <= 1 {
		return n
	}
	return (n + 1) / 2
}

// mutex locates one of the five mutexes by ROLE (struct + type + use), not by field name, so that renaming an
// unexported field does not break the checks: "fs.STFS", "fs.File", "operations", "tape.physical", "tape.reader".
func (c *Ctx) mutex(role string) *types.Var {
	find := func(rel, typ string, pointer bool) []*types.Var {
		n := c.namedType(rel, typ)
		if n == nil {
			return nil
		}
		st, ok := n.Underlying().(*types.Struct)
		if !ok {
			return nil
		}
		var out []*types.Var
		for i := 0; i < st.NumFields(); i++ {
			t := st.Field(i).Type()
			if p, isPtr := t.(*types.Pointer); isPtr {
				if !pointer {
					continue
				}
				t = p.Elem()
			} else if pointer {
				continue
			}
			if nm, ok := t.(*types.Named); ok && nm.Obj().Pkg() != nil && nm.Obj().Pkg().Path() == "sync" && (nm.Obj().Name() == "Mutex" || nm.Obj().Name() == "RWMutex") {
				out = append(out, st.Field(i))
			}
		}
		return out
	}
	one := func(vs []*types.Var, what string) *types.Var {
		if len(vs) != 1 {
			c.unresolved("%s: expected exactly one mutex field, found %d", what, len(vs))
			return nil
		}
		return vs[0]
	}
	switch role {
	case "fs.STFS":
		return one(find("pkg/fs", "STFS", false), "fs.STFS")
	case "fs.File":
		return one(find("pkg/fs", "File", true), "fs.File")
	case "operations":
		return one(find("pkg/operations", "Operations", false), "operations.Operations")
	case "tape.physical", "tape.reader":
		vs := find("pkg/tape", "TapeManager", false)
		if len(vs) != 2 {
			c.unresolved("tape.TapeManager: expected two mutex fields, found %d", len(vs))
			return nil
		}
		// the physical drive mutex is the one GetWriter locks
		gw := c.fn("pkg/tape", "(*TapeManager).GetWriter")
		if gw == nil {
			return nil
		}
		var phys *types.Var
		for _, cs := range gw.calls {
			if se, ok := ast.Unparen(cs.Call.Fun).(*ast.SelectorExpr); ok && se.Sel.Name == "Lock" {
				if fv := selField(gw.Pkg.TypesInfo, se.X); fv == vs[0] || fv == vs[1] {
					phys = fv
				}
			}
		}
		if phys == nil {
			c.unresolved("tape.TapeManager: GetWriter locks neither mutex field")
			return nil
		}
		if role == "tape.physical" {
			return phys
		}
		if vs[0] == phys {
			return vs[1]
		}
		return vs[0]
	}
	c.unresolved("unknown mutex role %s", role)
	return nil
}

// Pos is the position of the function (declaration or literal).
func (f *FuncInfo) Pos() token.Pos {
	if f.Decl != nil {
		return f.Decl.Pos()
	}
	return f.Lit.Pos()
}
