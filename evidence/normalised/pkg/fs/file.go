package fs

import (
	"archive/tar"
	"bytes"
	"database/sql"
	"io"
	"io/fs"
	"os"
	"path"
	"sync"
	"time"

	"github.com/pojntfx/stfs/internal/ioext"
	"github.com/pojntfx/stfs/internal/pathext"
	"github.com/pojntfx/stfs/pkg/cache"
	"github.com/pojntfx/stfs/pkg/config"
	"github.com/pojntfx/stfs/pkg/inventory"
	"github.com/pojntfx/stfs/pkg/logging"
	"github.com/pojntfx/stfs/pkg/operations"
	"github.com/spf13/afero"
)

type FileFlags struct {
	Read  bool
	Write bool

	Append   bool
	Truncate bool
}

type File struct {
	afero.File

	readOps  *operations.Operations
	writeOps *operations.Operations

	metadata config.MetadataConfig

	path  string
	link  string
	flags *FileFlags

	compressionLevel string
	getFileBuffer    func() (cache.WriteCache, func() error, error)

	name string
	info *FileInfo

	ioLock *sync.Mutex

	readOpReader *ioext.CounterReadCloser
	readOpWriter io.WriteCloser

	writeBuf      cache.WriteCache
	cleanWriteBuf func() error

	onHeader func(hdr *config.Header)
	log      logging.StructuredLogger
}

func NewFile(
	readOps *operations.Operations,
	writeOps *operations.Operations,

	metadata config.MetadataConfig,

	path string,
	link string,
	flags *FileFlags,

	compressionLevel string,
	getFileBuffer func() (cache.WriteCache, func() error, error),
	ioLock *sync.Mutex,

	name string,
	info *FileInfo,

	onHeader func(hdr *config.Header),
	log logging.StructuredLogger,
) *File {
	return &File{
		readOps:  readOps,
		writeOps: writeOps,

		metadata: metadata,

		path:  path,
		link:  link,
		flags: flags,

		compressionLevel: compressionLevel,
		getFileBuffer:    getFileBuffer,
		ioLock:           ioLock,

		name: name,
		info: info,

		onHeader: onHeader,
		log:      log,
	}
}

func (f *File) syncWithoutLocking() error {
	f.log.Trace("File.syncWithoutLocking", map[string]interface{}{
		"name": f.name,
	})

	if f.info.IsDir() {
		return config.ErrIsDirectory
	}

	if f.writeBuf != nil {
		// Writing continues where it was once the content has been flushed
		position, err := f.writeBuf.Seek(0, io.SeekCurrent)
		if err != nil {
			return err
		}

		// The attributes of the entry may have been changed through the filesystem since this handle was opened (`Chmod`,
		// `Chown`, `Chtimes`); writing the content must not take them back to what they were at open
		if current, err := inventory.Stat(
			f.metadata,

			f.path,
			false,

			f.onHeader,
		); err == nil {
			f.info = NewFileInfoFromTarHeader(current, f.log)
		}

		done := false
		if _, err := f.writeOps.Update(
			func() (config.FileConfig, error) {
				// Exit after the first write
				if done {
					return config.FileConfig{}, io.EOF
				}
				done = true

				size, err := f.writeBuf.Size()
				if err != nil {
					return config.FileConfig{}, err
				}

				// Some OSes like i.e. Windows don't support numeric GIDs and UIDs, so use 0 instead
				gid := 0
				uid := 0
				modTime := f.info.ModTime()
				accessTime := f.info.ModTime()
				changeTime := f.info.ModTime()
				sys, ok := f.info.Sys().(*Stat)
				if ok {
					gid = int(sys.Gid)
					uid = int(sys.Uid)
					accessTime = time.Unix(0, sys.Atim.Nano())
					changeTime = time.Unix(0, sys.Ctim.Nano())
				}

				f.info = NewFileInfo(
					f.info.Name(),
					size,
					f.info.Mode(),
					modTime,
					accessTime,
					changeTime,
					gid,
					uid,
					f.info.IsDir(),
					f.log,
				)

				// `archive/tar` takes ownership and the access/change times only from a `*tar.Header`; hand the info over as one,
				// otherwise every content write resets the owner of the file
				hdr, err := tar.FileInfoHeader(f.info, f.link)
				if err != nil {
					return config.FileConfig{}, err
				}
				hdr.Uid = uid
				hdr.Gid = gid
				hdr.AccessTime = accessTime
				hdr.ChangeTime = changeTime

				return config.FileConfig{
					GetFile: func() (io.ReadSeekCloser, error) {
						if _, err := f.writeBuf.Seek(0, io.SeekStart); err != nil {
							return nil, err
						}

						// `Update` closes what it is handed; the buffer is closed together with the handle instead, it has to
						// outlive a `Sync`
						return keepOpen{f.writeBuf}, nil
					},
					Info: hdr.FileInfo(),
					Path: f.path,
					Link: f.link,
				}, nil
			},
			f.compressionLevel,
			true,
			true,
		); err != nil {
			return err
		}

		if _, err := f.writeBuf.Seek(position, io.SeekStart); err != nil {
			return err
		}
	}

	return nil
}

// keepOpen is a source whose `Close` leaves the underlying buffer open
type keepOpen struct {
	io.ReadSeeker
}

func (keepOpen) Close() error {
	return nil
}

func (f *File) closeWithoutLocking() error {
	f.log.Trace("File.closeWithoutLocking", map[string]interface{}{
		"name": f.name,
	})

	if f.readOpReader != nil {
		if err := f.readOpReader.Close(); err != nil {
			return err
		}
	}

	if f.readOpWriter != nil {
		if err := f.readOpWriter.Close(); err != nil {
			return err
		}
	}

	if f.writeBuf != nil {
		if err := f.syncWithoutLocking(); err != nil {
			return err
		}

		if err := f.writeBuf.Close(); err != nil {
			return err
		}

		if err := f.cleanWriteBuf(); err != nil {
			return err
		}
	}

	f.readOpReader = nil
	f.readOpWriter = nil
	f.writeBuf = nil

	return nil
}

func (f *File) enterWriteMode() error {
	f.log.Trace("File.enterWriteMode", map[string]interface{}{
		"name": f.name,
	})

	// Writing continues where reading (or seeking) on this handle has left off
	position := int64(0)
	if f.readOpReader != nil {
		position = int64(f.readOpReader.BytesRead)
	}

	if f.readOpReader != nil || f.readOpWriter != nil {
		if err := f.closeWithoutLocking(); err != nil {
			return err
		}
	}

	if f.writeBuf == nil {
		exists := false
		existingFile, err := inventory.Stat(
			f.metadata,

			f.path,
			false,

			f.onHeader,
		)
		if err == nil {
			if existingFile.Size != 0 {
				exists = true
			}
		} else {
			if err != sql.ErrNoRows {
				return err
			}
		}

		// Create new buffer
		writeBuf, cleanWriteBuf, err := f.getFileBuffer()
		if err != nil {
			return err
		}

		// Read existing file into buffer
		if exists {
			if err := f.readOps.Restore(
				func(path string, mode fs.FileMode) (io.WriteCloser, error) {
					// Don't close the file here, we want to re-use it!
					return ioext.AddCloseNopToWriter(writeBuf), nil
				},
				func(path string, mode fs.FileMode) error {
					// Not necessary; can't read on a directory
					return nil
				},

				f.path,
				"",
				true,
			); err != nil {
				// Don't keep what has been loaded so far: it might not have passed verification
				_ = cleanWriteBuf()

				return err
			}
		}

		// Only adopt the buffer once the existing content has been loaded (and verified) completely
		f.writeBuf = writeBuf
		f.cleanWriteBuf = cleanWriteBuf

		if f.flags.Truncate {
			if err := f.writeBuf.Truncate(0); err != nil {
				return err
			}

			// Loading the existing content left the cursor behind it; the emptied buffer starts at zero, also when appending
			if _, err := f.writeBuf.Seek(0, io.SeekStart); err != nil {
				return err
			}
		}

		if !f.flags.Append {
			// There is nothing left to continue in if the content has just been dropped
			if f.flags.Truncate {
				position = 0
			}

			if _, err := f.writeBuf.Seek(position, io.SeekStart); err != nil {
				return err
			}
		}
	}

	return nil
}

func (f *File) seekWithoutLocking(offset int64, whence int) (int64, error) {
	f.log.Trace("File.seekWithoutLocking", map[string]interface{}{
		"name":   f.name,
		"offset": offset,
		"whence": whence,
	})

	if f.info.IsDir() {
		// Noop
		return 0, nil
	}

	if f.writeBuf != nil {
		return f.writeBuf.Seek(offset, whence)
	}

	dst := int64(0)
	switch whence {
	case io.SeekStart:
		dst = offset
	case io.SeekCurrent:
		curr := 0
		if f.readOpReader != nil {
			curr = f.readOpReader.BytesRead
		}
		dst = int64(curr) + offset
	case io.SeekEnd:
		dst = f.info.Size() + offset
	default:
		return 0, config.ErrNotImplemented
	}

	// There is nothing in front of the first byte
	if dst < 0 {
		return 0, os.ErrInvalid
	}

	if f.readOpReader == nil || f.readOpWriter == nil || dst < int64(f.readOpReader.BytesRead) { // We have to re-open as we can't seek backwards
		_ = f.closeWithoutLocking() // Ignore errors here as it might not be opened

		r, writer := io.Pipe()
		reader := &ioext.CounterReadCloser{
			Reader:    r,
			BytesRead: 0,
		}

		go func() {
			// Always end the stream, even if the restore finished without ever opening the destination
			defer writer.Close()

			if err := f.readOps.Restore(
				func(path string, mode fs.FileMode) (io.WriteCloser, error) {
					return writer, nil
				},
				func(path string, mode fs.FileMode) error {
					// Not necessary; can't read on a directory
					return nil
				},

				f.path,
				"",
				true,
			); err != nil {
				if err == io.ErrClosedPipe {
					return
				}

				// Hand the error to the reading side instead of crashing the process
				_ = writer.CloseWithError(err)
			}
		}()

		f.readOpReader = reader
		f.readOpWriter = writer
	}

	_, err := io.CopyN(io.Discard, f.readOpReader, dst-int64(f.readOpReader.BytesRead))
	if err == io.EOF {
		// The target lies behind the end of the content; it is still the position that has been asked for (the stream's
		// byte count has moved to the end meanwhile, so it can't be used to work the position out again)
		return dst, nil
	}

	if err != nil {
		return 0, err
	}

	return dst, nil
}

// Inventory
func (f *File) Name() string {
	f.log.Trace("File.Name", map[string]interface{}{
		"name": f.name,
	})

	f.ioLock.Lock()
	defer f.ioLock.Unlock()

	if f.link != "" {
		if pathext.IsRoot(f.link, false) {
			return ""
		}

		return f.link
	}

	if pathext.IsRoot(f.path, false) {
		return ""
	}

	return f.path
}

func (f *File) Stat() (os.FileInfo, error) {
	f.log.Trace("File.Stat", map[string]interface{}{
		"name": f.name,
	})

	f.ioLock.Lock()
	defer f.ioLock.Unlock()

	if f.writeBuf != nil {
		size, err := f.writeBuf.Size()
		if err != nil {
			return nil, err
		}

		f.info.size = size
	}

	// Hand out a copy: the handle keeps updating its own info (i.e. the size, on the next `Stat`) under the I/O lock,
	// while the caller reads what it has been given without it
	info := *f.info
	if f.link != "" {
		info.name = path.Base(f.link)
	}

	return &info, nil
}

func (f *File) Readdir(count int) ([]os.FileInfo, error) {
	f.log.Trace("File.Readdir", map[string]interface{}{
		"name":  f.name,
		"count": count,
	})

	f.ioLock.Lock()
	defer f.ioLock.Unlock()

	if !f.info.IsDir() {
		return []os.FileInfo{}, config.ErrIsFile
	}
	hdrs, err := inventory.List(
		f.metadata,

		f.path,
		count,

		f.onHeader,
	)
	if err != nil {
		return nil, err
	}

	fileInfos := []os.FileInfo{}
	for _, hdr := range hdrs {
		fileInfos = append(fileInfos, NewFileInfoFromTarHeader(hdr, f.log))
	}

	return fileInfos, nil
}

func (f *File) Readdirnames(n int) ([]string, error) {
	f.log.Trace("File.Readdirnames", map[string]interface{}{
		"name": f.name,
		"n":    n,
	})

	f.ioLock.Lock()
	isDir := f.info.IsDir()
	f.ioLock.Unlock()

	if !isDir {
		return []string{}, config.ErrIsFile
	}

	dirs, err := f.Readdir(n)
	if err != nil {
		return []string{}, err
	}

	names := []string{}
	for _, dir := range dirs {
		names = append(names, dir.Name())
	}

	return names, err
}

// Read operations
func (f *File) Read(p []byte) (n int, err error) {
	f.log.Trace("File.Read", map[string]interface{}{
		"name": f.name,
		"p":    len(p),
	})

	if !f.flags.Read {
		return 0, os.ErrPermission
	}

	if len(p) <= 0 {
		return 0, nil
	}

	f.ioLock.Lock()
	defer f.ioLock.Unlock()

	{
		var n_h1 int
		_ = n_h1
		var err_h1 error
		_ = err_h1

		if f.info.IsDir() {
			return 0, config.ErrIsDirectory
		}

		if f.writeBuf != nil {
			return f.writeBuf.Read(p)
		}

		if f.readOpReader == nil || f.readOpWriter == nil {
			r_h1, writer_h1 := io.Pipe()
			reader_h1 := &ioext.CounterReadCloser{
				Reader:    r_h1,
				BytesRead: 0,
			}

			go func() {
				// Always end the stream, even if the restore finished without ever opening the destination
				defer writer_h1.Close()

				if err_h1 := f.readOps.Restore(
					func(path_h1 string, mode_h1 fs.FileMode) (io.WriteCloser, error) {
						return writer_h1, nil
					},
					func(path_h1 string, mode_h1 fs.FileMode) error {
						// Not necessary; can't read on a directory
						return nil
					},

					f.path,
					"",
					true,
				); err_h1 != nil {
					if err_h1 == io.ErrClosedPipe {
						return
					}

					// Hand the error to the reading side instead of crashing the process
					_ = writer_h1.CloseWithError(err_h1)
				}
			}()

			f.readOpReader = reader_h1
			f.readOpWriter = writer_h1
		}

		w_h1 := &bytes.Buffer{}
		_, err_h1 = io.CopyN(w_h1, f.readOpReader, int64(len(p)))
		if err_h1 == io.EOF {
			return copy(p, w_h1.Bytes()), io.EOF
		}

		if err_h1 != nil {
			return 0, err_h1
		}

		return copy(p, w_h1.Bytes()), nil

	}

}

func (f *File) ReadAt(p []byte, off int64) (n int, err error) {
	f.log.Trace("File.ReadAt", map[string]interface{}{
		"name": f.name,
		"p":    len(p),
		"off":  off,
	})

	if !f.flags.Read {
		return 0, os.ErrPermission
	}

	if len(p) <= 0 {
		return 0, nil
	}

	// One critical section: another call on this handle must not move the cursor between the seek and the read
	f.ioLock.Lock()
	defer f.ioLock.Unlock()

	if f.info.IsDir() {
		return 0, config.ErrIsDirectory
	}

	if _, err := f.seekWithoutLocking(off, io.SeekStart); err != nil {
		return 0, err
	}

	{
		var n_h2 int
		_ = n_h2
		var err_h2 error
		_ = err_h2

		if f.info.IsDir() {
			return 0, config.ErrIsDirectory
		}

		if f.writeBuf != nil {
			return f.writeBuf.Read(p)
		}

		if f.readOpReader == nil || f.readOpWriter == nil {
			r_h2, writer_h2 := io.Pipe()
			reader_h2 := &ioext.CounterReadCloser{
				Reader:    r_h2,
				BytesRead: 0,
			}

			go func() {
				// Always end the stream, even if the restore finished without ever opening the destination
				defer writer_h2.Close()

				if err_h2 := f.readOps.Restore(
					func(path_h2 string, mode_h2 fs.FileMode) (io.WriteCloser, error) {
						return writer_h2, nil
					},
					func(path_h2 string, mode_h2 fs.FileMode) error {
						// Not necessary; can't read on a directory
						return nil
					},

					f.path,
					"",
					true,
				); err_h2 != nil {
					if err_h2 == io.ErrClosedPipe {
						return
					}

					// Hand the error to the reading side instead of crashing the process
					_ = writer_h2.CloseWithError(err_h2)
				}
			}()

			f.readOpReader = reader_h2
			f.readOpWriter = writer_h2
		}

		w_h2 := &bytes.Buffer{}
		_, err_h2 = io.CopyN(w_h2, f.readOpReader, int64(len(p)))
		if err_h2 == io.EOF {
			return copy(p, w_h2.Bytes()), io.EOF
		}

		if err_h2 != nil {
			return 0, err_h2
		}

		return copy(p, w_h2.Bytes()), nil

	}

}

// Read/write operations
func (f *File) Seek(offset int64, whence int) (int64, error) {
	f.log.Trace("File.Seek", map[string]interface{}{
		"name":   f.name,
		"offset": offset,
		"whence": whence,
	})

	f.ioLock.Lock()
	defer f.ioLock.Unlock()

	return f.seekWithoutLocking(offset, whence)
}

// Write operations
func (f *File) Write(p []byte) (n int, err error) {
	f.log.Trace("File.Write", map[string]interface{}{
		"name": f.name,
		"p":    len(p),
	})

	f.ioLock.Lock()
	defer f.ioLock.Unlock()

	if f.info.IsDir() {
		return 0, config.ErrIsDirectory
	}

	if !f.flags.Write {
		return 0, os.ErrPermission
	}

	if err := f.enterWriteMode(); err != nil {
		return 0, err
	}

	n, err = f.writeBuf.Write(p)
	if err != nil {
		return 0, err
	}

	return n, nil
}

func (f *File) WriteAt(p []byte, off int64) (n int, err error) {
	f.log.Trace("File.WriteAt", map[string]interface{}{
		"name": f.name,
		"p":    len(p),
		"off":  off,
	})

	f.ioLock.Lock()
	defer f.ioLock.Unlock()

	if f.info.IsDir() {
		return 0, config.ErrIsDirectory
	}

	if !f.flags.Write {
		return 0, os.ErrPermission
	}

	if err := f.enterWriteMode(); err != nil {
		return 0, err
	}

	if _, err := f.seekWithoutLocking(off, io.SeekStart); err != nil {
		return 0, err
	}

	return f.writeBuf.Write(p)
}

func (f *File) WriteString(s string) (ret int, err error) {
	f.log.Trace("File.WriteString", map[string]interface{}{
		"name": f.name,
		"s":    len(s),
	})

	f.ioLock.Lock()
	defer f.ioLock.Unlock()

	if f.info.IsDir() {
		return 0, config.ErrIsDirectory
	}

	if !f.flags.Write {
		return 0, os.ErrPermission
	}

	if err := f.enterWriteMode(); err != nil {
		return 0, err
	}

	return f.writeBuf.Write([]byte(s))
}

func (f *File) Truncate(size int64) error {
	f.log.Trace("File.Truncate", map[string]interface{}{
		"name": f.name,
		"size": size,
	})

	f.ioLock.Lock()
	defer f.ioLock.Unlock()

	if f.info.IsDir() {
		return config.ErrIsDirectory
	}

	if !f.flags.Write {
		return os.ErrPermission
	}

	if err := f.enterWriteMode(); err != nil {
		return err
	}

	// Both write caches keep the content in front of the new size and fill up with zeros behind the old one
	if err := f.writeBuf.Truncate(size); err != nil {
		return err
	}

	return nil
}

// Cleanup operations
func (f *File) Sync() error {
	f.log.Trace("File.Sync", map[string]interface{}{
		"name": f.name,
	})

	f.ioLock.Lock()
	defer f.ioLock.Unlock()

	return f.syncWithoutLocking()
}

func (f *File) Close() error {
	f.log.Debug("File.Close", map[string]interface{}{
		"name": f.name,
	})

	f.ioLock.Lock()
	defer f.ioLock.Unlock()

	return f.closeWithoutLocking()
}
